"""Runner: ./check <ID> <quick|thorough>   |   ./check --replay <file>

exit 0  property held on everything explored (KNOWN-FINDING lines allowed)
exit 1  + "VIOLATION property=<id> replay=<path>" for every unlisted violation
exit 2  harness error (never a VIOLATION line)
"""
import fnmatch
import importlib
import json
import multiprocessing as mp
import os
import re
import sys
import time
import traceback
from collections import Counter
from pathlib import Path

VERIF = Path(__file__).resolve().parent.parent
KNOWN_FILE = VERIF / "KNOWN_FINDINGS.txt"


def load_module(pid):
    return importlib.import_module("vf.props.%s" % pid.lower())


def parse_known(pid):
    """known: property=C08 key=<feature> sig=<glob> input=<path> :: <what fails>"""
    out = []
    if not KNOWN_FILE.exists():
        return out
    for line in KNOWN_FILE.read_text().splitlines():
        line = line.strip()
        if not line.startswith("known:"):
            continue
        head, _, what = line[len("known:"):].partition("::")
        kv = dict(re.findall(r"(\w+)=(\S+)", head))
        if kv.get("property") != pid:
            continue
        out.append(
            {
                "key": kv.get("key", ""),
                "sig": kv.get("sig", "*"),
                "input": kv.get("input"),
                "what": what.strip(),
            }
        )
    return out


def _worker(args):
    pid, tier, seed, shard, nshards, known_features, mode, payload = args
    from vf import env

    try:
        scratch = env.setup("%s_%d" % (pid, shard))
        from vf.core import Ctx, Violation, Discard

        mod = load_module(pid)
        ctx = Ctx(pid, tier, seed, shard, nshards, known_features, scratch)
        budget = getattr(mod, "SOFT_BUDGET_S", {"quick": 150, "thorough": 3600})
        ctx.soft_deadline = time.time() + float(
            os.environ.get("VERIF_BUDGET_S", budget.get(tier, 150))
        )
        if mode == "shard":
            mod.shard(ctx)
            return {"ok": True, "res": ctx.result()}
        elif mode == "replay":
            out = []
            for item in payload:
                try:
                    mod.replay(ctx, item["case"])
                    out.append({"id": item["id"], "fail": None})
                except Violation as v:
                    out.append({"id": item["id"], "fail": {"sig": v.kind, "msg": v.msg}})
                except Discard as d:
                    out.append({"id": item["id"], "fail": None, "discard": d.reason})
            return {"ok": True, "replay": out, "res": ctx.result()}
    except BaseException as e:  # noqa: BLE001 - reported as harness error
        return {"ok": False, "err": "".join(traceback.format_exception(type(e), e, e.__traceback__))}
    finally:
        env.cleanup()


def run_pool(jobs, nproc):
    """One fresh (spawned) process per job.  A worker that dies (e.g. killed by the
    OOM killer) or never returns surfaces as a harness error instead of a hang."""
    import concurrent.futures as cf

    ctx = mp.get_context("spawn")
    hard = float(os.environ.get("VERIF_HARD_TIMEOUT_S", "7200"))
    out = [None] * len(jobs)
    with cf.ProcessPoolExecutor(max_workers=nproc, mp_context=ctx, max_tasks_per_child=1) as ex:
        futs = {ex.submit(_worker, j): i for i, j in enumerate(jobs)}
        try:
            for fut in cf.as_completed(futs, timeout=hard):
                i = futs[fut]
                try:
                    out[i] = fut.result()
                except BaseException as e:  # noqa: BLE001 - BrokenProcessPool etc.
                    out[i] = {"ok": False, "err": "worker for shard %d died: %s: %s" % (i, type(e).__name__, e)}
        except cf.TimeoutError:
            for fut, i in futs.items():
                if out[i] is None:
                    fut.cancel()
                    out[i] = {"ok": False, "err": "worker for shard %d did not finish within %.0f s" % (i, hard)}
            for p in list(getattr(ex, "_processes", {}).values()):
                p.kill()
    return out


def write_replay(pid, failure):
    d = VERIF / "replays" / pid
    d.mkdir(parents=True, exist_ok=True)
    from vf.core import case_hash

    name = re.sub(r"[^A-Za-z0-9_.-]+", "_", failure["sig"])[:80] + "_" + case_hash(failure["case"])
    path = d / (name + ".json")
    path.write_text(
        json.dumps(
            {
                "property": pid,
                "sig": failure["sig"],
                "message": failure["msg"],
                "labels": failure.get("labels", []),
                "case": failure["case"],
            },
            indent=1,
            sort_keys=True,
            default=str,
        )
    )
    return path.relative_to(VERIF)


def main(argv):
    if len(argv) >= 2 and argv[0] == "--replay":
        return replay_main(argv[1])
    if len(argv) < 1:
        print("usage: ./check <ID> <quick|thorough> | --replay <file>", file=sys.stderr)
        return 2
    pid = argv[0].upper()
    tier = argv[1] if len(argv) > 1 else os.environ.get("VERIF_TIER", "quick")
    if tier not in ("quick", "thorough"):
        tier = "quick"
    seed = int(os.environ.get("VERIF_SEED", "1") or 1)
    t0 = time.time()
    mod = load_module(pid)
    nshards = int(os.environ.get("VERIF_SHARDS", getattr(mod, "SHARDS", {}).get(tier, 16)))

    # ---- known findings and corpus: replay tier -----------------------
    known = parse_known(pid)
    payload = []
    for i, k in enumerate(known):
        if k["input"]:
            p = VERIF / k["input"]
            payload.append({"id": "known:%d" % i, "case": json.loads(p.read_text())["case"]})
    corpus_dir = VERIF / "corpus" / pid
    known_inputs = {str(VERIF / k["input"]) for k in known if k["input"]}
    corpus_files = []
    if corpus_dir.is_dir():
        for p in sorted(corpus_dir.glob("*.json")):
            if str(p) in known_inputs:
                continue
            corpus_files.append(p)
            payload.append({"id": "corpus:%s" % p.name, "case": json.loads(p.read_text())["case"]})

    violations = []  # (sig, replay path, msg)
    known_lines = []
    active_features = []
    replayed = 0
    if payload:
        r = run_pool([(pid, tier, seed, 0, 1, [], "replay", payload)], 1)[0]
        if not r["ok"]:
            print("HARNESS-ERROR in replay tier:\n" + r["err"], file=sys.stderr)
            return 2
        for item in r["replay"]:
            replayed += 1
            kind, _, idx = item["id"].partition(":")
            if kind == "known":
                k = known[int(idx)]
                if item["fail"] and fnmatch.fnmatchcase(item["fail"]["sig"], k["sig"]):
                    k["active"] = True
                    if k["key"]:
                        active_features.append(k["key"])
                    known_lines.append("KNOWN-FINDING: property=%s %s" % (pid, k["what"]))
                elif item["fail"]:
                    # fails, but differently from what is listed
                    case = [p for p in payload if p["id"] == item["id"]][0]["case"]
                    f = {"sig": item["fail"]["sig"], "msg": item["fail"]["msg"], "case": case}
                    violations.append((f["sig"], write_replay(pid, f), f["msg"]))
                else:
                    k["active"] = False
            else:
                if item["fail"]:
                    case = [p for p in payload if p["id"] == item["id"]][0]["case"]
                    f = {"sig": item["fail"]["sig"], "msg": item["fail"]["msg"], "case": case}
                    violations.append((f["sig"], write_replay(pid, f), f["msg"]))

    # ---- generated search ---------------------------------------------
    jobs = [(pid, tier, seed, s, nshards, active_features, "shard", None) for s in range(nshards)]
    nproc = min(nshards, int(os.environ.get("VERIF_PROCS", "16")))
    results = run_pool(jobs, nproc)
    errs = [r["err"] for r in results if not r["ok"]]
    if errs:
        print("HARNESS-ERROR (%d shard(s)):\n%s" % (len(errs), errs[0]), file=sys.stderr)
        return 2
    evaluations = 0
    nontrivial = set()
    labels, discards, excluded, extra = Counter(), Counter(), Counter(), Counter()
    samples = []
    failures = {}
    out_of_budget = 0
    for r in results:
        res = r["res"]
        evaluations += res["evaluations"]
        nontrivial.update(res["nontrivial"])
        labels.update(res["labels"])
        discards.update(res["discards"])
        excluded.update(res["excluded"])
        extra.update(res["extra"])
        out_of_budget += res["out_of_budget"]
        for s in res["samples"]:
            if len(samples) < 4:
                samples.append(s)
        for f in res["failures"]:
            cur = failures.get(f["sig"])
            if cur is None:
                failures[f["sig"]] = f
            else:
                cur["count"] += f["count"]
                if f["size"] < cur["size"]:
                    cur.update(case=f["case"], msg=f["msg"], size=f["size"])

    known_hits = Counter()
    for sig, f in sorted(failures.items()):
        matched = None
        for k in known:
            if k.get("active") and fnmatch.fnmatchcase(sig, k["sig"]):
                matched = k
                break
        if matched is not None:
            known_hits[matched["what"]] += f["count"]
            continue
        violations.append((sig, write_replay(pid, f), f["msg"]))

    # ---- evidence -------------------------------------------------------
    rule = getattr(mod, "RULE", "")
    coverage = {
        "evaluations": int(evaluations + replayed),
        "distinct_nontrivial": int(len(nontrivial)),
        "rule": rule,
        "samples": samples if samples else [{"note": "no non-trivial sample recorded"}],
        "labels": dict(sorted(labels.items())),
        "discarded": dict(sorted(discards.items())),
        "excluded_by_known_finding": dict(sorted(excluded.items())),
        "replayed_corpus_cases": replayed,
        "shards": nshards,
        "cases_skipped_over_time_budget": out_of_budget,
    }
    if extra:
        coverage["counters"] = dict(sorted(extra.items()))
    if known_hits:
        coverage["known_finding_hits"] = dict(known_hits)
    if hasattr(mod, "coverage_extra"):
        coverage.update(mod.coverage_extra(tier, coverage))
    if out_of_budget:
        coverage["note"] = (
            "time budget reached: inconclusive for the %d cases not run" % out_of_budget
        )
    ev = {
        "property_id": pid,
        "tier": tier,
        "seed": seed,
        "level": getattr(mod, "LEVEL", "exploration"),
        "coverage": coverage,
        "assumptions": list(getattr(mod, "ASSUMPTIONS", [])),
        "wall_s": round(time.time() - t0, 2),
        "violations": len(violations),
    }
    # mutant/seeded runs (tools/mutant.sh) write their evidence elsewhere so that the committed
    # evidence always comes from a run against /repo itself
    evdir = Path(os.environ.get("VERIF_EVIDENCE_DIR") or (VERIF / "evidence"))
    evdir.mkdir(parents=True, exist_ok=True)
    (evdir / ("%s.json" % pid)).write_text(json.dumps(ev, indent=1, default=str))

    for line in known_lines:
        print(line)
    for sig, path, msg in violations:
        print("VIOLATION property=%s replay=%s" % (pid, path))
        print("  signature: %s\n  %s" % (sig, (msg or "")[:400]))
    print(
        "%s %s seed=%d: %d evaluations, %d distinct non-trivial, %d violation signature(s), "
        "%d known, %.1fs"
        % (pid, tier, seed, evaluations + replayed, len(nontrivial), len(violations),
           len(known_lines), time.time() - t0)
    )
    return 1 if violations else 0


def replay_main(path):
    p = Path(path)
    if not p.is_absolute():
        p = VERIF / p
    data = json.loads(p.read_text())
    pid = data["property"]
    r = run_pool(
        [(pid, "quick", 1, 0, 1, [], "replay", [{"id": "corpus:x", "case": data["case"]}])], 1
    )[0]
    if not r["ok"]:
        print("HARNESS-ERROR:\n" + r["err"], file=sys.stderr)
        return 2
    item = r["replay"][0]
    if item["fail"]:
        print("VIOLATION property=%s replay=%s" % (pid, path))
        print("  signature: %s\n  %s" % (item["fail"]["sig"], item["fail"]["msg"][:1000]))
        return 1
    print("replay passes: property=%s %s" % (pid, path))
    return 0


if __name__ == "__main__":
    try:
        rc = main(sys.argv[1:])
    except SystemExit:
        raise
    except BaseException:  # noqa: BLE001
        traceback.print_exc()
        rc = 2
    sys.exit(rc)
