"""G-lib: abstract class libraries (a DAG of classes so that instantiation
terminates), Hypothesis strategy, and the Modelica printer.

A library is {"classes": [C, ...]} in creation order; every class may only use
classes created before it.  Class:
  {"id": "K3", "parent": None | "K1", "kind": "model" | "package" | "type" | "connector",
   "base": "Real"            (kind type: alias of a builtin),
   "mods": [M, ...]          (kind type: attribute modifications of the alias),
   "extends": [{"cls": "K1", "mods": [M, ...]}],
   "comps": [{"name", "cls": "Real"|"Integer"|"Boolean"|"K2", "prefixes": [...], "dims": [...],
              "mods": [M, ...], "value": E | None}],
   "eqs": [[lhs, rhs], ...], "ieqs": [...]}
Modification M = {"path": ["a", "x"], "attr": "start" | "value" | ..., "expr": E}: path is relative
to the modified element's class ([] = the element itself).
Expressions E use vf.gen.expr trees where ["var", "a.b.x"] is a reference relative to the class
in which the expression is written and ["idx", "a.v", 2] an indexed one.
"""
from hypothesis import strategies as st

from vf.gen import expr as X

BUILTIN = ("Real", "Integer", "Boolean")


class Lib:
    def __init__(self, data):
        self.data = data
        self.by_id = {c["id"]: c for c in data["classes"]}

    def cls(self, cid):
        return self.by_id[cid]

    def children(self, cid):
        return [c for c in self.data["classes"] if c["parent"] == cid]

    def ancestors(self, cid):
        out = []
        p = self.by_id[cid]["parent"]
        while p is not None:
            out.append(p)
            p = self.by_id[p]["parent"]
        return out

    def name(self, cid):
        """Modelica name of a class: its id unless a shadowing name was given (add_shadow)."""
        return self.by_id[cid].get("name", cid)

    def path(self, cid):
        return [self.name(x) for x in list(reversed(self.ancestors(cid))) + [cid]]

    def bases(self, cid):
        """Transitive base classes."""
        out = []
        for e in self.by_id[cid].get("extends", []):
            out.append(e["cls"])
            out += self.bases(e["cls"])
        return out

    def nested(self, cid, inherited=True):
        """{name: id} of the classes that are elements of class cid (own, then inherited)."""
        out = {}
        for k in self.children(cid):
            out.setdefault(self.name(k["id"]), k["id"])
        if inherited:
            for b in self.bases(cid):
                for k in self.children(b):
                    out.setdefault(self.name(k["id"]), k["id"])
        return out

    def resolve(self, frm, parts, for_extends=False):
        """Modelica lookup of a class name written in class frm: first identifier in frm and its
        enclosing scopes (own and inherited elements; a class's own extends clauses are looked up
        without its inherited elements), the rest as elements of what was found."""
        cur = None
        for i, s in enumerate([frm] + self.ancestors(frm)):
            vis = self.nested(s, inherited=not (for_extends and i == 0))
            if parts[0] in vis:
                cur = vis[parts[0]]
                break
        else:
            for c in self.data["classes"]:
                if c["parent"] is None and self.name(c["id"]) == parts[0]:
                    cur = c["id"]
                    break
        for part in parts[1:]:
            if cur is None:
                return None
            cur = self.nested(cur).get(part)
        return cur

    def ref_text(self, frm, target, for_extends=False):
        """How class `frm` spells a reference to class `target` (Modelica lookup:
        own/inherited nested classes, enclosing scopes, then global)."""
        if target in BUILTIN:
            return target
        if any("name" in c for c in self.data["classes"]):
            # shadowed names: the shortest spelling that really denotes the target
            for parts in ([self.name(target)], self.path(target)):
                if self.resolve(frm, parts, for_extends) == target:
                    return ".".join(parts)
            raise LookupError("%s cannot name %s" % (frm, target))
        tp = self.by_id[target]["parent"]
        if tp is None:
            return target
        scope = [frm] + self.ancestors(frm)
        visible_parents = set(scope)
        for s in scope:
            visible_parents.update(self.bases(s))
        if tp in visible_parents:
            return target
        return ".".join(self.path(target))

    def valid_names(self):
        """No two elements of a class (own or inherited nested classes, top level) share a name,
        and every class reference can be spelled."""
        tops = [self.name(c["id"]) for c in self.data["classes"] if c["parent"] is None]
        if len(tops) != len(set(tops)):
            return False
        for c in self.data["classes"]:
            ids = {k["id"] for k in self.children(c["id"])}
            for b in self.bases(c["id"]):
                ids |= {k["id"] for k in self.children(b)}
            names = [self.name(i) for i in ids]
            if len(names) != len(set(names)):
                return False
            try:
                for e in c.get("extends", []):
                    self.ref_text(c["id"], e["cls"], for_extends=True)
                for comp in c.get("comps", []):
                    self.ref_text(c["id"], comp["cls"])
            except LookupError:
                return False
        return True

    def models(self):
        return [c["id"] for c in self.data["classes"] if c["kind"] == "model"]


# --------------------------------------------------------------------------
# printer
# --------------------------------------------------------------------------
SPELLING_NAMES = ["nested", "dotted_elem", "dotted_attr", "dotted_all"]


class Mix:
    """A spelling that changes from one modification list to the next: site i of
    the printed text uses SPELLING_NAMES[picks[i % len(picks)]]."""

    def __init__(self, picks):
        self.picks = list(picks)
        self.i = 0

    def next(self):
        s = SPELLING_NAMES[self.picks[self.i % len(self.picks)] % 4]
        self.i += 1
        return s


def mods_nested(mods, spelling="nested"):
    """Text of a modification list inside parentheses (without them).
    spelling: nested  a(x(start = 1))       dotted_elem  a.x(start = 1)
              dotted_attr a(x.start = 1)    dotted_all   a.x.start = 1"""
    parts = []
    if isinstance(spelling, Mix):
        spelling = spelling.next()
    if spelling == "nested":
        # group by first path element, keep first-appearance order
        groups, order = {}, []
        for m in mods:
            if not m["path"]:
                parts.append(_leaf_mod(m))
                continue
            k = m["path"][0]
            if k not in groups:
                groups[k] = []
                order.append(k)
            groups[k].append({"path": m["path"][1:], "attr": m["attr"], "expr": m["expr"], "each": m.get("each")})
        for k in order:
            sub = groups[k]
            val = [m for m in sub if not m["path"] and m["attr"] == "value"]
            rest = [m for m in sub if not (not m["path"] and m["attr"] == "value")]
            t = k
            if rest:
                t += "(" + mods_nested(rest, "nested") + ")"
            if val:
                t += " = " + X.to_modelica(val[0]["expr"])
            parts.append(t)
        return ", ".join(parts)
    for m in mods:
        p, a, e = m["path"], m["attr"], X.to_modelica(m["expr"])
        if not p:
            parts.append(_leaf_mod(m))
        elif spelling == "dotted_elem":
            parts.append(".".join(p) + (" = " + e if a == "value" else "(%s = %s)" % (a, e)))
        elif spelling == "dotted_attr":
            if a == "value":
                inner = "%s = %s" % (p[-1], e)
            else:
                inner = "%s.%s = %s" % (p[-1], a, e)
            t = inner
            for k in reversed(p[:-1]):
                t = "%s(%s)" % (k, t)
            parts.append(t)
        elif spelling == "dotted_all":
            parts.append(".".join(p) + (" = " + e if a == "value" else ".%s = %s" % (a, e)))
        else:
            raise ValueError(spelling)
    return ", ".join(parts)


def _leaf_mod(m):
    return "%s = %s" % (m["attr"], X.to_modelica(m["expr"]))


def print_comp(lib, owner, c, spelling="nested"):
    t = " ".join(c.get("prefixes", []) + [lib.ref_text(owner, c["cls"])]) + " " + c["name"]
    if c.get("dims"):
        t += "[" + ",".join(str(d) for d in c["dims"]) + "]"
    mods = [m for m in c.get("mods", []) if not (not m["path"] and m["attr"] == "value")]
    vals = [m for m in c.get("mods", []) if not m["path"] and m["attr"] == "value"]
    if mods:
        t += "(" + mods_nested(mods, spelling) + ")"
    if c.get("value") is not None:
        t += " = " + X.to_modelica(c["value"])
    elif vals:
        t += " = " + X.to_modelica(vals[0]["expr"])
    return t + ";"


def print_eq(eq):
    return "%s = %s;" % (X.to_modelica(eq[0]), X.to_modelica(eq[1]))


def print_class(lib, cid, ind="", spelling="nested", skip_children=()):
    c = lib.cls(cid)
    if c["kind"] == "type":
        m = ""
        if c.get("mods"):
            m = "(" + mods_nested(c["mods"], "nested") + ")"
        return ind + "type %s = %s%s;\n" % (lib.name(cid), c["base"], m)
    out = ind + "%s %s\n" % (c["kind"], lib.name(cid))
    for k in lib.children(cid):
        if k["id"] in skip_children:
            continue
        out += print_class(lib, k["id"], ind + "  ", spelling)
    for e in c.get("extends", []):
        m = ""
        if e.get("mods"):
            m = "(" + mods_nested(e["mods"], spelling) + ")"
        out += ind + "  extends %s%s;\n" % (lib.ref_text(cid, e["cls"], for_extends=True), m)
    for comp in c.get("comps", []):
        out += ind + "  " + print_comp(lib, cid, comp, spelling) + "\n"
    if c.get("ieqs"):
        out += ind + "initial equation\n"
        for q in c["ieqs"]:
            out += ind + "  " + print_eq(q) + "\n"
    if c.get("eqs") or c.get("connects"):
        out += ind + "equation\n"
        for q in c.get("eqs", []):
            out += ind + "  " + print_eq(q) + "\n"
        for a, b in c.get("connects", []):
            out += ind + "  connect(%s, %s);\n" % (a, b)
    out += ind + "end %s;\n" % lib.name(cid)
    return out


def print_lib(lib, spelling="nested"):
    return "".join(print_class(lib, c["id"], "", spelling) for c in lib.data["classes"] if c["parent"] is None)


# --------------------------------------------------------------------------
# strategy
# --------------------------------------------------------------------------
class Opts:
    def __init__(self, max_classes=6, max_comps=4, max_depth=4, arrays=True, aliases=True,
                 packages=True, nested_models=True, extends=True, mods="decl", eqs=True,
                 multi_extends=True, prefixes=True, values=True, ieqs=True, der=True,
                 foreign_bases=True, on_exclude=None, time=True, param_subscripts=True):
        self.__dict__.update(locals())
        del self.__dict__["self"]


LEAF_PREFIXES = [[], [], [], ["parameter"], ["constant"], ["discrete"], ["flow"], ["input"], ["output"],
                 ["parameter", "input"], ["discrete", "output"], ["flow", "input"]]
ATTR_LITS = {
    "start": [["real", "1.5"], ["int", 2], ["real", "0.25"]],
    "min": [["neg", ["int", 5]], ["int", 0], ["real", "0.5"]],
    "max": [["int", 10], ["real", "7.5"]],
    "nominal": [["int", 2], ["real", "3.0"]],
    "fixed": [["bool", True], ["bool", False]],
}


def depth_of(lib_classes, cid, memo):
    """Instantiation depth of a class (1 = only elementary components)."""
    if cid in BUILTIN:
        return 0
    if cid in memo:
        return memo[cid]
    c = [k for k in lib_classes if k["id"] == cid][0]
    if c["kind"] == "type":
        memo[cid] = 0
        return 0
    d = 1
    for comp in c.get("comps", []):
        d = max(d, 1 + depth_of(lib_classes, comp["cls"], memo))
    for e in c.get("extends", []):
        d = max(d, depth_of(lib_classes, e["cls"], memo))
    memo[cid] = d
    return d


def leaf_paths(lib_classes, cid, kinds=("Real", "Integer", "Boolean"), memo=None, seen_extends=True):
    """[(path, comp, base type)] of elementary leaves reachable from class cid
    (own, inherited and through components)."""
    by = {k["id"]: k for k in lib_classes}
    out = []
    c = by[cid]
    for e in c.get("extends", []):
        out += leaf_paths(lib_classes, e["cls"], kinds)
    for comp in c.get("comps", []):
        t = comp["cls"]
        if t in BUILTIN:
            out.append(([comp["name"]], comp, t))
        elif by[t]["kind"] == "type":
            out.append(([comp["name"]], comp, by[t]["base"]))
        else:
            for p, lc, bt in leaf_paths(lib_classes, t, kinds):
                out.append(([comp["name"]] + p, lc, bt))
    return out


@st.composite
def eq_expr(draw, refs, depth=2, time=False):
    """Small fully determined arithmetic over references (printed by the
    minimal printer; + - * and unary minus on a leaf only, so the parsed tree
    mirrors the abstract one node for node)."""
    if depth <= 0 or draw(st.integers(0, 2)) == 0:
        k = draw(st.integers(0, 4 if time else 3))
        if k == 4:
            return ["time"]  # a reference that is not a variable of the model
        if k == 0 or not refs:
            return draw(st.sampled_from([["int", 1], ["int", 3], ["real", "2.5"]]))
        return draw(st.sampled_from(refs))
    op = draw(st.sampled_from(["+", "-", "*"]))
    return ["bin", op, draw(eq_expr(refs, depth - 1, time)), draw(eq_expr(refs, depth - 1, time))]


def ref_node(path, comp, nparam=None):
    name = ".".join(path)
    if comp.get("dims"):
        subs = [1 + (len(name) + i) % d for i, d in enumerate(comp["dims"])]
        if nparam is not None:
            # subscript given by an Integer parameter of the class that writes the equation (value 1: always in range)
            subs[0] = ["var", nparam]
        return ["idx", name] + subs
    return ["var", name]


@st.composite
def library(draw, opts=None):
    o = opts or Opts()
    classes = []
    n = 0

    def new_id():
        nonlocal n
        n += 1
        return "K%d" % n

    vcount = [0]

    def new_var():
        vcount[0] += 1
        return "v%d" % vcount[0]

    def usable_types(owner_parent_chain, self_id):
        """Classes that `self_id` may instantiate/extend: created earlier,
        visible by Modelica lookup from a class whose enclosing chain is given."""
        out = []
        for k in classes:
            if k["id"] == self_id or k["kind"] == "package":
                continue
            if k["id"] in owner_parent_chain:
                continue  # an enclosing class cannot be instantiated inside itself
            p = k["parent"]
            if p is None or p in owner_parent_chain or p == self_id:
                out.append(k["id"])
            else:
                pk = [q for q in classes if q["id"] == p][0]
                if pk["kind"] == "package" and pk["parent"] is None:
                    out.append(k["id"])
        return out

    def make_class(parent, chain, kind, level):
        cid = new_id()
        c = {"id": cid, "parent": parent, "kind": kind}
        if kind == "type":
            c["base"] = draw(st.sampled_from(["Real", "Real", "Integer", "Boolean"]))
            c["mods"] = []
            classes.append(c)
            return cid
        if kind == "package":
            classes.append(c)
            for _ in range(draw(st.integers(1, 3))):
                if len(classes) >= o.max_classes:
                    break
                make_class(cid, [cid] + chain, draw(st.sampled_from(["model", "model", "type"] if o.aliases else ["model"])), level)
            return cid
        # model: optional local classes first
        c.update({"extends": [], "comps": [], "eqs": [], "ieqs": []})
        classes.append(c)
        if o.nested_models and level < 2 and len(classes) < o.max_classes and draw(st.integers(0, 3)) == 0:
            make_class(cid, [cid] + chain, draw(st.sampled_from(["model", "type"] if o.aliases else ["model"])), level + 1)
        memo = {}
        types = usable_types(chain, cid)
        model_types = [t for t in types if [k for k in classes if k["id"] == t][0]["kind"] == "model"
                       and depth_of(classes, t, memo) < o.max_depth]
        alias_types = [t for t in types if [k for k in classes if k["id"] == t][0]["kind"] == "type"]
        # extends
        inherited_names = set()
        if o.extends and model_types and draw(st.integers(0, 2)) == 0:
            nb = 2 if (o.multi_extends and len(model_types) > 1 and draw(st.integers(0, 2)) == 0) else 1
            for b in draw(st.permutations(model_types))[:nb]:
                if not o.foreign_bases and foreign_nonportable(classes, b, [cid] + chain):
                    # known finding: inherited elements are looked up in the derived class's scope
                    if o.on_exclude:
                        o.on_exclude("inherited_lookup_scope")
                    continue
                names_b = {p[0] for p, _, _ in leaf_paths(classes, b)} | {cc["name"] for cc in _all_comps(classes, b)}
                if names_b & inherited_names:
                    continue
                inherited_names |= names_b
                c["extends"].append({"cls": b, "mods": []})
        # components
        for _ in range(draw(st.integers(1, o.max_comps))):
            k = draw(st.integers(0, 9))
            if k <= 3 or not (model_types or alias_types):
                t = draw(st.sampled_from(["Real", "Real", "Real", "Integer", "Boolean"]))
            elif k <= 4 and alias_types:
                t = draw(st.sampled_from(alias_types))
            elif model_types:
                t = draw(st.sampled_from(model_types))
            else:
                t = "Real"
            comp = {"name": new_var(), "cls": t, "prefixes": [], "dims": [], "mods": [], "value": None}
            elementary = t in BUILTIN or t in alias_types
            if elementary:
                if o.prefixes:
                    comp["prefixes"] = list(draw(st.sampled_from(LEAF_PREFIXES)))
                base = t if t in BUILTIN else [q for q in classes if q["id"] == t][0]["base"]
                if o.arrays and base == "Real" and draw(st.integers(0, 4)) == 0:
                    comp["dims"] = draw(st.sampled_from([[2], [3], [2, 2]]))
                if o.mods and base == "Real" and not comp["dims"] and draw(st.integers(0, 2)) == 0:
                    a = draw(st.sampled_from(["start", "min", "max", "nominal"]))
                    comp["mods"].append({"path": [], "attr": a, "expr": draw(st.sampled_from(ATTR_LITS[a]))})
                if o.values and base == "Real" and not comp["dims"] and (
                    "parameter" in comp["prefixes"] or "constant" in comp["prefixes"]
                ):
                    comp["value"] = draw(st.sampled_from([["int", 2], ["real", "1.5"], ["int", 7]]))
            c["comps"].append(comp)
        # equations over reachable Real leaves
        if o.eqs:
            leaves = [(p, lc) for p, lc, bt in leaf_paths(classes, cid) if bt == "Real"]
            nparam = None
            if o.param_subscripts and any(lc.get("dims") for _, lc in leaves) and draw(st.booleans()):
                nparam = "n" + cid
                c["comps"].append({"name": nparam, "cls": "Integer", "prefixes": ["parameter"], "dims": [], "mods": [],
                                   "value": ["int", 1]})
            refs = [ref_node(p, lc, nparam if (nparam and lc.get("dims") and draw(st.booleans())) else None) for p, lc in leaves]
            plain = [(p, lc) for p, lc in leaves if not lc.get("dims")
                     and not ({"parameter", "constant", "input"} & set(lc.get("prefixes", [])))]
            for _ in range(draw(st.integers(0, 3))):
                if not refs:
                    break
                if o.der and plain and draw(st.integers(0, 3)) == 0:
                    p, lc = draw(st.sampled_from(plain))
                    lhs = ["der", ["var", ".".join(p)]]
                else:
                    lhs = draw(st.sampled_from(refs))
                c["eqs"].append([lhs, draw(eq_expr(refs, 2, o.time))])
            if o.ieqs and plain and draw(st.integers(0, 4)) == 0:
                p, lc = draw(st.sampled_from(plain))
                c["ieqs"].append([["var", ".".join(p)], draw(eq_expr(refs, 1))])
        return cid

    ntop = draw(st.integers(2, o.max_classes))
    for i in range(ntop):
        if len(classes) >= o.max_classes:
            break
        kinds = ["model", "model", "model"]
        if o.aliases:
            kinds.append("type")
        if o.packages and i < ntop - 1:
            kinds.append("package")
        make_class(None, [], draw(st.sampled_from(kinds)), 0)
    if not any(k["kind"] == "model" for k in classes):
        make_class(None, [], "model", 0)
    return {"classes": classes}


def shadows_toplevel(data):
    """A nested class carries the name of a top-level class."""
    lib = Lib(data)
    tops = {lib.name(c["id"]) for c in data["classes"] if c["parent"] is None}
    return any("name" in c and c["parent"] is not None and c["name"] in tops for c in data["classes"])


@st.composite
def add_shadow(draw, data, allow_toplevel=True, on_exclude=None):
    """Give one nested class the name of a class of another scope (shadowing), preferably one that
    a class inheriting the nested class also refers to.  Returns True when a name was given; the
    library stays as it was when no legal choice exists."""
    lib = Lib(data)
    pairs, hot = [], []
    skipped = False
    nestable = [c for c in data["classes"] if c["parent"] is not None and c["kind"] in ("model", "type")]
    for x in nestable:
        holders = [d["id"] for d in data["classes"] if x["parent"] == d["id"] or x["parent"] in lib.bases(d["id"])]
        used = set()
        for d in holders:
            for k in [d] + lib.bases(d):
                used |= {e["cls"] for e in lib.cls(k).get("extends", [])} | {c["cls"] for c in lib.cls(k).get("comps", [])}
        for y in data["classes"]:
            if y["id"] == x["id"] or y["kind"] == "package" or y["parent"] == x["parent"] or y["id"] in lib.ancestors(x["id"]):
                continue
            if y["parent"] is None and not allow_toplevel:
                skipped = True
                continue
            (hot if y["id"] in used else pairs).append((x["id"], y["id"]))
    if skipped and on_exclude:
        on_exclude("shadowed_toplevel_class")
    pool = hot if hot and draw(st.integers(0, 4)) != 0 else hot + pairs
    if not pool:
        return False
    x, y = draw(st.sampled_from(pool))
    lib.cls(x)["name"] = lib.name(y)
    if not lib.valid_names():
        del lib.cls(x)["name"]
        return False
    return True


@st.composite
def shadow_gadget(draw, data, allow_toplevel=True, on_exclude=None):
    """Append a small group of classes in which a nested class carries the name of a class of the
    enclosing scope that another base class (or the derived class's other base) uses:
        [package GP]  model GY ..;  model GB1 model GX(name GY) ..; GX r1; end GB1;
        model GB2 GY r2; ..;  model GM extends GB1; extends GB2; .. (either order / own nested class)
    Returns the id of the class to flatten."""
    classes = data["classes"]
    cont = None
    packaged = draw(st.booleans())
    if not packaged and not allow_toplevel:
        packaged = True
        if on_exclude:
            on_exclude("shadowed_toplevel_class")
    if packaged:
        cont = "GP"
        classes.append({"id": "GP", "parent": None, "kind": "package"})

    def real(name, **kw):
        c = {"name": name, "cls": "Real", "prefixes": [], "dims": [], "mods": [], "value": None}
        c.update(kw)
        return c

    def model(cid, parent, comps, eqs, extends=()):
        classes.append({"id": cid, "parent": parent, "kind": "model", "extends": [{"cls": b, "mods": []} for b in extends],
                        "comps": comps, "eqs": eqs, "ieqs": []})

    y_alias = draw(st.integers(0, 3)) == 0
    if y_alias:
        classes.append({"id": "GY", "parent": cont, "kind": "type", "base": "Real", "mods": []})
        y_leaf = "r2"
    else:
        model("GY", cont, [real("gy1"), real("gy2", prefixes=["parameter"], value=["int", 2])],
              [[["var", "gy1"], ["bin", "*", ["int", 3], ["var", "gy2"]]]])
        y_leaf = "r2.gy1"
    variant = draw(st.sampled_from(["two_bases", "two_bases", "two_bases_swapped", "own_nested"]))
    holder = "GM" if variant == "own_nested" else "GB1"
    if variant != "own_nested":
        model("GB1", cont, [], [])
    else:
        model("GM", cont, [], [], extends=["GB2"])  # completed below (GB2 is created after it: only printing order)
    model("GX", holder, [real("gx1"), real("gx2")], [[["var", "gx1"], ["bin", "+", ["var", "gx2"], ["int", 1]]]])
    by = {c["id"]: c for c in classes}
    by["GX"]["name"] = "GY"
    by[holder]["comps"].append({"name": "r1", "cls": "GX", "prefixes": [], "dims": [], "mods": [], "value": None})
    by[holder]["comps"].append(real("h1"))
    by[holder]["eqs"].append([["var", "h1"], ["bin", "-", ["var", "r1.gx1"], ["int", 2]]])
    gb2 = {"id": "GB2", "parent": cont, "kind": "model", "extends": [], "ieqs": [],
           "comps": [{"name": "r2", "cls": "GY", "prefixes": [], "dims": [], "mods": [], "value": None}, real("z")],
           "eqs": [[["var", "z"], ["bin", "*", ["var", y_leaf], ["real", "2.5"]]]]}
    if variant == "own_nested":
        # a base class must be created before the class that extends it
        classes.insert(classes.index(by["GM"]), gb2)
    else:
        classes.append(gb2)
        order = ["GB1", "GB2"] if variant == "two_bases" else ["GB2", "GB1"]
        model("GM", cont, [real("w")], [[["var", "w"], ["bin", "+", ["var", y_leaf], ["var", "r1.gx2"]]]], extends=order)
    if draw(st.booleans()):
        model("GT", cont, [{"name": "m1", "cls": "GM", "prefixes": [], "dims": [], "mods": [], "value": None},
                           {"name": "m2", "cls": "GM", "prefixes": [], "dims": [], "mods": [], "value": None}],
              [[["var", "m1.r1.gx2"], ["var", "m2.h1"]]])
        return "GT"
    return "GM"


def foreign_nonportable(classes, b, scope_chain):
    """Base class b lives in a scope that is not an enclosing scope of the
    derived class, and some NESTED class of b names a class that is only
    visible from b's own scope."""
    by = {k["id"]: k for k in classes}
    if by[b]["parent"] is None or by[b]["parent"] in scope_chain:
        return False

    def inside(x, root):
        while x is not None:
            if x == root:
                return True
            x = by[x]["parent"]
        return False

    def refs(k, direct):
        # the base's own components are resolved in the base's scope (repaired); what is still
        # looked up from the derived class are the names used INSIDE the base's nested classes
        out = []
        if not direct:
            # (extends clauses of a nested class are still resolved through its lexical parent)
            out += [c["cls"] for c in by[k].get("comps", [])]
        for ch in classes:
            if ch["parent"] == k:
                out += refs(ch["id"], False)
        for e in by[k].get("extends", []):
            out += refs(e["cls"], direct)
        return out

    for r in refs(b, True):
        if r in BUILTIN or by[r]["parent"] is None or inside(r, b):
            continue
        return True
    return False


def _all_comps(classes, cid):
    by = {k["id"]: k for k in classes}
    out = []
    for e in by[cid].get("extends", []):
        out += _all_comps(classes, e["cls"])
    out += by[cid].get("comps", [])
    return out
