"""G-dae: CasADi-oriented flat models (scalars, 1-D/2-D arrays, parameters,
constants, inputs, Booleans, der, for-equations, if-equations, user functions
with algorithm sections), their Modelica printer and reference semantics.

Model (JSON-able):
  {"name": "M", "n": 3, "m": 2,
   "vars": [{"name", "type", "prefix", "dims", "value", "attrs": {attr: expr}}],
   "funcs": [{"name", "inputs": [..], "output": "r", "protected": [..], "stmts": [S..]}],
   "eqs": [Q..], "ieqs": [Q..]}
Q = ["eq", lhs, rhs] | ["for", idx, lo, hi, step|None, [Q..]] | ["if", [[cond, [Q..]], ..], [Q..]]
S = ["assign", name, e] | ["ifs", [[cond, [S..]], ..], [S..]] | ["fors", idx, lo, hi, [S..]]
Extra expression nodes (besides vf.gen.expr): ["arr", name]  ["slice", name, lo, hi]
  ["slice3", name, lo, step, hi]  ["idxe", name, e1 (, e2)]  ["sum", e]  ["arrlit", [e..]]
"""
import math

import numpy as np
from hypothesis import strategies as st

from vf.gen import expr as X


# --------------------------------------------------------------------------
# printer
# --------------------------------------------------------------------------
class P(X.Printer):
    def _raw(self, e):
        k = e[0]
        if k == "arr":
            return e[1]
        if k == "slice":
            return "%s[%d:%d]" % (e[1], e[2], e[3])
        if k == "slice3":
            return "%s[%d:%d:%d]" % (e[1], e[2], e[3], e[4])
        if k == "idxe":
            return "%s[%s]" % (e[1], ", ".join(self.p(s, X.L_IF) for s in e[2:]))
        if k == "sum":
            return "sum(%s)" % self.p(e[1], X.L_IF)
        if k == "arrlit":
            return "{" + ", ".join(self.p(v, X.L_IF) for v in e[1]) + "}"
        return super()._raw(e)


def pe(e, bits=None):
    return P(bits).p(e, X.L_IF)


def print_eq(q, ind="  "):
    k = q[0]
    if k == "eq":
        return ind + "%s = %s;\n" % (pe(q[1]), pe(q[2]))
    if k == "for":
        _, idx, lo, hi, step, body = q
        rng = "%d:%d" % (lo, hi) if step is None else "%d:%d:%d" % (lo, step, hi)
        return ind + "for %s in %s loop\n" % (idx, rng) + "".join(print_eq(b, ind + "  ") for b in body) + ind + "end for;\n"
    if k == "if":
        out = ""
        for i, (c, body) in enumerate(q[1]):
            out += ind + ("if " if i == 0 else "elseif ") + pe(c) + " then\n" + "".join(print_eq(b, ind + "  ") for b in body)
        out += ind + "else\n" + "".join(print_eq(b, ind + "  ") for b in q[2]) + ind + "end if;\n"
        return out
    raise ValueError(q)


def print_stmt(s, ind="  "):
    k = s[0]
    if k == "assign":
        return ind + "%s := %s;\n" % (s[1], pe(s[2]))
    if k == "ifs":
        out = ""
        for i, (c, body) in enumerate(s[1]):
            out += ind + ("if " if i == 0 else "elseif ") + pe(c) + " then\n" + "".join(print_stmt(b, ind + "  ") for b in body)
        out += ind + "else\n" + "".join(print_stmt(b, ind + "  ") for b in s[2]) + ind + "end if;\n"
        return out
    if k == "fors":
        _, idx, lo, hi, body = s
        return ind + "for %s in %d:%d loop\n" % (idx, lo, hi) + "".join(print_stmt(b, ind + "  ") for b in body) + ind + "end for;\n"
    raise ValueError(s)


def print_var(v):
    t = (v["prefix"] + " " if v["prefix"] else "") + v["type"] + " " + v["name"]
    if v["dims"]:
        t += "[" + ",".join(str(d) for d in v["dims"]) + "]"
    attrs = v.get("attrs") or {}
    if attrs:
        t += "(" + ", ".join("%s = %s" % (a, pe(e)) for a, e in attrs.items()) + ")"
    if v.get("value") is not None:
        t += " = " + pe(v["value"])
    return "  " + t + ";\n"


def print_func(f):
    out = "function %s\n" % f["name"]
    for a in f["inputs"]:
        out += "  input Real %s;\n" % a
    out += "  output Real %s;\n" % f["output"]
    if f["protected"]:
        out += "protected\n" + "".join("  Real %s;\n" % t for t in f["protected"])
    out += "algorithm\n" + "".join(print_stmt(s) for s in f["stmts"]) + "end %s;\n" % f["name"]
    return out


def print_model(m):
    out = "".join(print_func(f) for f in m.get("funcs", []))
    out += "model %s\n" % m["name"] + "".join(print_var(v) for v in m["vars"])
    if m.get("ieqs"):
        out += "initial equation\n" + "".join(print_eq(q) for q in m["ieqs"])
    if m.get("eqs"):
        out += "equation\n" + "".join(print_eq(q) for q in m["eqs"])
    out += "end %s;\n" % m["name"]
    return out


# --------------------------------------------------------------------------
# reference semantics
# --------------------------------------------------------------------------
class E(X.Eval):
    """Array-aware reference evaluator (numpy arrays for array values)."""

    def ev(self, e):
        k = e[0]
        if k == "arr":
            return np.array(self.env[e[1]], dtype=float)
        if k == "slice":
            a = np.array(self.env[e[1]], dtype=float)
            if not (1 <= e[2] and e[3] <= a.shape[0]):
                raise IndexError("slice out of range")
            return a[e[2] - 1 : e[3]]
        if k == "slice3":
            a = np.array(self.env[e[1]], dtype=float)
            idx = list(range(e[2], e[4] + (1 if e[3] > 0 else -1), e[3]))
            if any(not (1 <= i <= a.shape[0]) for i in idx):
                raise IndexError("slice out of range")
            return a[[i - 1 for i in idx]]
        if k == "idxe":
            a = np.array(self.env[e[1]], dtype=float)
            subs = []
            for s, d in zip(e[2:], a.shape):
                i = self.ev(s)
                if abs(i - round(i)) > 1e-9:
                    raise ValueError("non-integer subscript")
                i = int(round(i))
                if not 1 <= i <= d:
                    raise IndexError("subscript %d out of 1..%d" % (i, d))
                subs.append(i - 1)
            return float(a[tuple(subs)])
        if k == "sum":
            return float(np.sum(self.ev(e[1])))
        if k == "arrlit":
            return np.array([self.ev(v) for v in e[1]], dtype=float)
        if k == "bin":
            a, b = self.ev(e[2]), self.ev(e[3])
            if isinstance(a, np.ndarray) or isinstance(b, np.ndarray):
                op = e[1].lstrip(".")
                if op == "+":
                    return a + b
                if op == "-":
                    return a - b
                if op == "*":
                    return a * b
                if op == "/":
                    return a / b
                raise ValueError("array op " + e[1])
            return self._scalar_bin(e[1], a, b)
        if k == "neg":
            return -self.ev(e[1])
        return super().ev(e)

    def _scalar_bin(self, op, a, b):
        op = op.lstrip(".")
        if op == "+":
            return a + b
        if op == "-":
            return a - b
        if op == "*":
            return a * b
        if op == "/":
            if abs(b) < 1e-9:
                raise X.Fragile("division by ~0")
            return a / b
        if op == "^":
            try:
                r = a ** b
            except (OverflowError, ZeroDivisionError):
                raise X.Fragile("power overflow")
            if isinstance(r, complex):
                raise X.Fragile("complex power")
            return r
        raise ValueError(op)


def run_func(f, args, funcs, margin=1e-6):
    env = dict(zip(f["inputs"], args))

    def ev(e):
        return E(env, "casadi", funcs, margin).ev(e)

    def run(stmts):
        for s in stmts:
            if s[0] == "assign":
                env[s[1]] = ev(s[2])
            elif s[0] == "ifs":
                for c, body in s[1]:
                    if ev(c) != 0:
                        run(body)
                        break
                else:
                    run(s[2])
            elif s[0] == "fors":
                for k in range(s[2], s[3] + 1):
                    env[s[1]] = k
                    run(s[4])
            else:
                raise ValueError(s)

    run(f["stmts"])
    return env[f["output"]]


def func_table(m):
    table = {}
    for f in m.get("funcs", []):
        table[f["name"]] = (lambda ff: (lambda *a: run_func(ff, a, table)))(f)
    return table


def residual(m, eqs, env, der):
    """Reference residual: list of blocks; each block is (kind, [floats]) where
    kind 'seq' must match in order and 'bag' (for-loop block) as a multiset."""
    try:
        return _residual(m, eqs, env, der)
    except OverflowError:
        # exact integer arithmetic of the reference left the float range (3 ^ 2 ^ 11 ..): not a test point
        raise X.Fragile("reference value out of float range")


def _residual(m, eqs, env, der):
    funcs = func_table(m)
    blocks = []

    def ev(e, extra=None):
        en = env if not extra else dict(env, **extra)
        return E(en, "casadi", funcs, der=der).ev(e)

    def res_eq(q, extra=None):
        if q[0] == "eq":
            l, r = ev(q[1], extra), ev(q[2], extra)
            d = np.array(l, dtype=float) - np.array(r, dtype=float)
            return list(np.atleast_1d(d).flatten(order="F"))
        if q[0] == "if":
            for c, body in q[1]:
                if ev(c, extra) != 0:
                    return [x for b in body for x in res_eq(b, extra)]
            return [x for b in q[2] for x in res_eq(b, extra)]
        raise ValueError(q)

    for q in eqs:
        if q[0] == "for":
            _, idx, lo, hi, step, body = q
            vals = list(range(lo, hi + 1)) if step is None else list(range(lo, hi + (1 if step > 0 else -1), step))
            out = []
            for i in vals:
                for b in body:
                    out += res_eq(b, {idx: i})
            blocks.append(("bag", out))
        else:
            blocks.append(("seq", res_eq(q)))
    for _kind, vals in blocks:
        for v in vals:
            if not math.isfinite(v) or abs(v) > 1e150:
                # overflow in the reference itself (inf - inf, inf vs 1e308): nothing to compare at this point
                raise X.Fragile("non-finite reference residual")
    return blocks


# --------------------------------------------------------------------------
# strategy
# --------------------------------------------------------------------------
class Feat:
    def __init__(self, arrays=True, loops=True, ifeq=True, funcs=True, boolvars=True, ieqs=True,
                 slices=True, two_d=True, relops=None, stepped=True, time=True, elementwise=True):
        self.__dict__.update(locals())
        del self.__dict__["self"]


@st.composite
def user_function(draw, name):
    nin = draw(st.integers(1, 3))
    ins = ["a", "b", "c"][:nin]
    cfg = X.Cfg(vars_=ins, funcs1=["exp", "sqrt", "sin", "cos"], funcs2=["min", "max"], allow_if=False,
                elementwise=False, allow_pos=False)
    kind = draw(st.sampled_from(["plain", "temp", "ifs", "fors", "fors2"]))
    stmts, prot = [], []
    if kind == "plain":
        stmts.append(["assign", "r", draw(X.num_expr(cfg, 2, True))])
    elif kind == "temp":
        prot = ["t"]
        stmts.append(["assign", "t", draw(X.num_expr(cfg, 2, True))])
        cfg2 = X.Cfg(vars_=ins + ["t"], funcs1=["sqrt"], funcs2=["max"], allow_if=False, elementwise=False, allow_pos=False)
        stmts.append(["assign", "r", draw(X.num_expr(cfg2, 2, True))])
    elif kind == "ifs":
        cfgc = X.Cfg(vars_=ins, funcs1=[], funcs2=[], allow_if=False, elementwise=False, allow_pos=False,
                     rel_ops=["<", "<=", ">", ">="], allow_bool_lit=False)
        branches = [[draw(X.bool_expr(cfgc, 1)), [["assign", "r", draw(X.num_expr(cfg, 1, True))]]]
                    for _ in range(draw(st.integers(1, 2)))]
        stmts.append(["ifs", branches, [["assign", "r", draw(X.num_expr(cfg, 1, True))]]])
    elif kind == "fors2":
        # loop body with two COUPLED assignments (each reads what the other assigns): the order
        # of assignments across iterations matters
        prot = ["t"]
        stmts.append(["assign", "t", draw(X.num_expr(cfg, 1, True))])
        stmts.append(["assign", "r", draw(X.num_expr(cfg, 1, True))])
        c1 = draw(st.sampled_from([["real", "0.5"], ["var", ins[0]], ["var", "k"]]))
        c2 = draw(st.sampled_from([["real", "0.25"], ["var", ins[-1]], ["var", "k"]]))
        body = [["assign", "t", ["bin", "+", ["var", "t"], ["bin", "*", c1, ["var", "r"]]]],
                ["assign", "r", ["bin", draw(st.sampled_from(["+", "*"])), ["var", "r"], ["bin", "+", ["bin", "*", c2, ["var", "t"]], ["var", "k"]]]]]
        if draw(st.booleans()):
            body.reverse()
        stmts.append(["fors", "k", 1, draw(st.integers(2, 3)), body])
    else:
        stmts.append(["assign", "r", draw(X.num_expr(cfg, 1, True))])
        cfgk = X.Cfg(vars_=ins + ["r", "k"], funcs1=[], funcs2=["max"], allow_if=False, elementwise=False,
                     allow_pos=False, allow_pow=False)
        # accumulation over the loop variable (a body that is a pure literal is degenerate and not generated)
        op = draw(st.sampled_from(["+", "*", "+"]))
        stmts.append(["fors", "k", 1, draw(st.integers(2, 3)),
                      [["assign", "r", ["bin", op, ["var", "r"], draw(X.num_expr(cfgk, 1, True))]]]])
    return {"name": name, "inputs": ins, "output": "r", "protected": prot, "stmts": stmts}


def var(name, type_="Real", prefix="", dims=None, value=None, attrs=None):
    return {"name": name, "type": type_, "prefix": prefix, "dims": list(dims or []), "value": value, "attrs": attrs or {}}


@st.composite
def dae_model(draw, feat=None):
    f = feat or Feat()
    n = draw(st.integers(2, 4))
    mm = draw(st.integers(2, 3))
    scal = ["s0", "s1", "s2", "s3"]
    vars_ = [var(s) for s in scal]
    vars_ += [var("p0", prefix="parameter", value=["real", "1.5"]), var("p1", prefix="parameter", value=["int", 2]),
              var("c0", prefix="constant", value=["real", "0.75"]), var("u0", prefix="input")]
    bools = []
    if f.boolvars:
        bools = ["b0", "b1"]
        vars_ += [var(b, "Boolean") for b in bools]
    idx_vars = []
    if f.arrays:
        vars_ += [var("x", dims=[n]), var("y", dims=[n]), var("z", dims=[n])]
        idx_vars += [("x", [n]), ("y", [n])]
        if f.two_d:
            vars_ += [var("A", dims=[n, mm]), var("B", dims=[n, mm])]
            idx_vars += [("A", [n, mm])]
    funcs = []
    if f.funcs:
        for i in range(draw(st.integers(0, 2))):
            funcs.append(draw(user_function("f%d" % i)))
    num_vars = scal + ["p0", "p1", "c0", "u0"]
    cfg = X.Cfg(vars_=num_vars, bool_vars=bools, idx_vars=idx_vars, allow_time=f.time, elementwise=f.elementwise,
                user_funcs=[(fn["name"], len(fn["inputs"])) for fn in funcs],
                rel_ops=f.relops or X.REL_OPS)
    eqs, ieqs = [], []
    used_lhs = set()
    nq = draw(st.integers(2, 6))
    for _ in range(nq):
        kinds = ["scalar", "scalar", "der"]
        if f.boolvars:
            kinds.append("bool")
        if f.arrays:
            kinds += ["array", "array"]
        if f.arrays and f.loops:
            kinds += ["for", "for"]
        if f.ifeq:
            kinds.append("if")
        kind = draw(st.sampled_from(kinds))
        if kind == "scalar":
            lhs = draw(st.sampled_from([["var", s] for s in scal] + ([["idx", "x", draw(st.integers(1, n))]] if f.arrays else [])))
            eqs.append(["eq", lhs, draw(X.num_expr(cfg, draw(st.integers(1, 3))))])
        elif kind == "der":
            eqs.append(["eq", ["der", ["var", draw(st.sampled_from(scal[:2]))]], draw(X.num_expr(cfg, 2))])
        elif kind == "bool":
            eqs.append(["eq", ["var", draw(st.sampled_from(bools))], draw(X.bool_expr(cfg, 2))])
        elif kind == "array":
            eqs.append(draw(array_eq(f, n, mm, cfg)))
        elif kind == "for":
            eqs.append(draw(for_eq(f, n, cfg)))
        elif kind == "if":
            nb = draw(st.integers(1, 2))
            neq = draw(st.integers(1, 2))
            lhss = draw(st.permutations(scal))[:neq]

            def block():
                return [["eq", ["var", l], draw(X.num_expr(cfg, 1))] for l in lhss]

            eqs.append(["if", [[draw(X.bool_expr(cfg, 1)), block()] for _ in range(nb)], block()])
    if f.ieqs:
        for _ in range(draw(st.integers(0, 2))):
            ieqs.append(["eq", ["var", draw(st.sampled_from(scal))], draw(X.num_expr(cfg, 2))])
    return {"name": "M", "n": n, "m": mm, "vars": vars_, "funcs": funcs, "eqs": eqs, "ieqs": ieqs}


@st.composite
def array_eq(draw, f, n, mm, cfg):
    kinds = ["axpy", "sum", "lit"]
    if f.slices:
        kinds += ["slice", "slice"]
        if f.stepped:
            kinds.append("slice3")
    if f.two_d:
        kinds += ["mat", "matelem"]
    k = draw(st.sampled_from(kinds))
    sc = draw(st.sampled_from([["var", "p0"], ["var", "s2"], ["real", "2.5"], ["var", "c0"]]))
    if k == "axpy":
        op = draw(st.sampled_from(["+", "-", ".+", ".-"]))
        return ["eq", ["arr", "z"], ["bin", op, ["bin", "*", sc, ["arr", "x"]], ["arr", "y"]]]
    if k == "sum":
        return ["eq", ["var", "s3"], ["bin", "+", ["sum", ["arr", draw(st.sampled_from(["x", "y"]))]], sc]]
    if k == "lit":
        # literals only: array constructors over variables are not in the statement's list of forms
        lits = [["real", "0.5"], ["int", 2], ["real", "1.25"], ["int", 3], ["real", "2.5e0"]]
        return ["eq", ["arr", "y"], ["arrlit", [draw(st.sampled_from(lits)) for _ in range(n)]]]
    if k == "slice":
        ln = draw(st.integers(1, n - 1))
        a = draw(st.integers(1, n - ln + 1))
        b = draw(st.integers(1, n - ln + 1))
        if draw(st.booleans()):
            return ["eq", ["var", "s3"], ["sum", ["slice", "x", a, a + ln - 1]]]
        return ["eq", ["slice", "z", a, a + ln - 1], ["bin", "+", ["slice", "x", b, b + ln - 1], ["slice", "y", a, a + ln - 1]]]
    if k == "slice3":
        step = 2
        idx = list(range(1, n + 1, step))
        return ["eq", ["var", "s3"], ["sum", ["slice3", "x", 1, step, idx[-1]]]]
    if k == "mat":
        op = draw(st.sampled_from(["+", "-"]))
        return ["eq", ["arr", "B"], ["bin", op, ["bin", "*", sc, ["arr", "A"]], ["arr", "A"]]]
    i, j = draw(st.integers(1, n)), draw(st.integers(1, mm))
    return ["eq", ["idx", "B", i, j], ["bin", "*", sc, ["idx", "A", draw(st.integers(1, n)), draw(st.integers(1, mm))]]]


@st.composite
def for_eq(draw, f, n, cfg):
    shift = draw(st.sampled_from([0, 0, 1, -1, "mirror"]))
    i = ["var", "i"]
    if shift == "mirror":
        # descending subscript n+1-i: a permutation of the whole index range
        lo, hi = 1, n
        sub = ["bin", "-", ["int", n + 1], i]
    else:
        lo = 1 + max(0, -shift)
        hi = n - max(0, shift)
        sub = i if shift == 0 else ["bin", "+" if shift > 0 else "-", i, ["int", abs(shift)]]
    step = None
    if f.stepped and hi - lo >= 2 and draw(st.integers(0, 3)) == 0:
        step = 2
    body = []
    nb = draw(st.integers(1, 3))
    tgt = draw(st.permutations(["x", "y", "z"]))
    for b in range(nb):
        src = tgt[(b + 1) % 3]
        form = draw(st.integers(0, 3))
        sc = draw(st.sampled_from([["var", "p0"], ["var", "s1"], ["real", "0.5"]]))
        if form == 0:
            rhs = ["bin", "+", ["bin", "*", sc, ["idxe", src, sub]], i]
        elif form == 1:
            rhs = ["bin", "*", ["idxe", src, sub], ["idxe", src, i]]
        elif form == 2:
            rhs = ["bin", "-", ["idxe", src, sub], ["bin", "*", i, sc]]
        else:
            rhs = ["call", "max", ["idxe", src, sub], sc]
        body.append(["eq", ["idxe", tgt[b], i], rhs])
    return ["for", "i", lo, hi, step, body]


# --------------------------------------------------------------------------
# evaluation points
# --------------------------------------------------------------------------
def make_env(m, rs):
    """Positive values for every variable (arrays as numpy arrays), Booleans 0/1."""
    env, der = {"time": float(rs.uniform(0.5, 3.0))}, {}
    for v in m["vars"]:
        if v["type"] == "Boolean":
            val = float(rs.randint(0, 2))
            env[v["name"]] = val if not v["dims"] else np.full(v["dims"], val)
        elif v["dims"]:
            env[v["name"]] = rs.uniform(0.5, 3.0, size=v["dims"])
        else:
            env[v["name"]] = float(rs.uniform(0.5, 3.0))
        der[v["name"]] = float(rs.uniform(0.5, 3.0)) if not v["dims"] else rs.uniform(0.5, 3.0, size=v["dims"])
    return env, der


def model_args(model, env, der, fn):
    """Argument list for a pymoca residual-style function from name->value maps."""
    import casadi as ca

    def vec(vs, deriv=False):
        out = []
        for v in vs:
            name = v.symbol.name()
            if deriv:
                assert name.startswith("der(") and name.endswith(")")
                val = der[name[4:-1]]
            else:
                val = env[name]
            out += list(np.atleast_1d(np.array(val, dtype=float)).flatten(order="F"))
        return ca.DM(out) if out else ca.DM.zeros(0, 1)

    return [
        ca.DM(env["time"]),
        vec(model.states),
        vec(model.der_states, True),
        vec(model.alg_states),
        vec(model.inputs),
        vec(model.constants),
        vec(model.parameters),
    ]


def features(m):
    out = set()

    def walk_e(e):
        for nd in X.walk(e):
            k = nd[0]
            if k == "bin" and nd[1].lstrip(".") == "/":
                out.add("division")
            if k == "bin" and nd[1].lstrip(".") == "^":
                out.add("power")
            if k == "bin" and nd[1].startswith("."):
                out.add("elementwise")
            if k in ("slice", "slice3"):
                out.add(k)
            if k == "if":
                out.add("if_expr")
            if k in ("and", "or", "not"):
                out.add("logic")
            if k == "rel":
                out.add("rel:" + nd[1])
            if k == "call":
                out.add("call:" + nd[1] if nd[1] in X.FUNCS1 + X.FUNCS2 else "user_call")
            if k == "idxe":
                out.add("loop_index")
            if k == "time":
                out.add("time")
            if k == "sum":
                out.add("sum")

    def walk_q(q):
        if q[0] == "eq":
            walk_e(q[1])
            walk_e(q[2])
            if q[1][0] in ("arr", "slice"):
                out.add("array_eq")
            if q[1][0] == "der":
                out.add("der")
        elif q[0] == "for":
            out.add("for")
            if q[4] is not None:
                out.add("for_stepped")
            for b in q[5]:
                walk_q(b)
                for nd in X.walk(b[2]):
                    if nd[0] == "idxe" and any(s[0] == "bin" for s in nd[2:]):
                        out.add("for_shifted")
                    if nd[0] == "idxe" and any(s[0] == "bin" and s[1] == "-" and s[2][0] == "int" for s in nd[2:]):
                        out.add("for_mirrored")
        elif q[0] == "if":
            out.add("if_eq")
            if len(q[1]) > 1:
                out.add("if_eq_elseif")
            for c, body in q[1]:
                walk_e(c)
                for b in body:
                    walk_q(b)
            for b in q[2]:
                walk_q(b)

    for q in m["eqs"] + m["ieqs"]:
        walk_q(q)
    for fn in m.get("funcs", []):
        for s in fn["stmts"]:
            out.add("func:" + s[0])
    if m["ieqs"]:
        out.add("initial_eq")
    return out
