"""Import the code under test from the working tree and isolate global state.

`VERIF_REPO` (default /repo) selects the tree: pymoca is pure Python and the
ANTLR output is committed, so "rebuilding" is a fresh interpreter importing
from `$VERIF_REPO/src`.  The override exists only so that mutants can be run
from a scratch copy outside /repo and /verif.
"""
import logging
import os
import shutil
import sys
import tempfile
from pathlib import Path

REPO = Path(os.environ.get("VERIF_REPO", "/repo")).resolve()
VERIF = Path(__file__).resolve().parent.parent
PINNED_VERSION = "9.9.9+verif"

_scratch_root = None


class HarnessError(Exception):
    """Something is wrong with the harness, never with pymoca."""


def setup(tag="main"):
    """Put the repo first on sys.path, give this process a private scratch
    directory and point every default cache location into it."""
    global _scratch_root
    for p in (str(REPO), str(REPO / "src")):
        if p in sys.path:
            sys.path.remove(p)
        sys.path.insert(0, p)
    base = os.environ.get("VERIF_SCRATCH_BASE") or tempfile.gettempdir()
    _scratch_root = Path(tempfile.mkdtemp(prefix="vf_%s_" % tag, dir=base))
    os.environ["XDG_CACHE_HOME"] = str(_scratch_root / "xdg")
    os.environ["HOME"] = str(_scratch_root / "home")
    (_scratch_root / "xdg").mkdir()
    (_scratch_root / "home").mkdir()
    os.environ.setdefault("HYPOTHESIS_STORAGE_DIRECTORY", str(_scratch_root / "hyp"))
    import pymoca

    here = Path(pymoca.__file__).resolve()
    if REPO not in here.parents:
        raise HarnessError("pymoca imported from %s, not from %s" % (here, REPO))
    logging.getLogger("pymoca").setLevel(logging.CRITICAL)
    logging.getLogger("pymoca").propagate = False
    return _scratch_root


def scratch():
    if _scratch_root is None:
        raise HarnessError("env.setup() not called")
    return _scratch_root


def fresh_dir(prefix="d"):
    return Path(tempfile.mkdtemp(prefix=prefix + "_", dir=scratch()))


def cleanup():
    global _scratch_root
    if _scratch_root is not None:
        shutil.rmtree(_scratch_root, ignore_errors=True)
        _scratch_root = None


def pin_version(version=PINNED_VERSION):
    """pymoca.__version__ comes from `git describe` and ends in `.dirty` when
    /repo has uncommitted edits, which silently bypasses the parse cache.  The
    repo's own tests patch the attribute the same way."""
    import pymoca

    pymoca.__version__ = version
    if "pymoca.backends.casadi.api" in sys.modules:
        sys.modules["pymoca.backends.casadi.api"].__version__ = version
    return version


class LogCapture(logging.Handler):
    """Collect pymoca log records (warnings are part of some oracles)."""

    def __init__(self, level=logging.WARNING):
        super().__init__(level)
        self.records = []

    def emit(self, record):
        self.records.append(record)

    def __enter__(self):
        self._lg = logging.getLogger("pymoca")
        self._old = self._lg.level
        self._lg.setLevel(self.level)
        self._lg.addHandler(self)
        return self

    def __exit__(self, *a):
        self._lg.removeHandler(self)
        self._lg.setLevel(self._old)
        return False
