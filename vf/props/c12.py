"""C12 - Representation-only options do not change the model's meaning.

Generated models (vf.gen.dae) that contain at least one for-equation and one
user-function call (optionally a delay) are compiled under all 8 combinations
of (unroll_loops, inline_functions, expand_mx); every combination is compared
with the default one (True, True, False): variable lists, order, metadata,
outputs, delay states, and the four functions at drawn points."""
import itertools

from hypothesis import strategies as st

from vf.canon import compare_models
from vf.core import Discard, Violation, drive, guarded, pymoca_frame
from vf.gen import dae as D
from vf.gen import expr as X

ID = "C12"
LEVEL = "exploration"
RULE = (
    "G-dae models forced to contain >= 1 for-equation and >= 1 user-function call (function bodies with "
    "assignment / if / for statements), optionally a delay with a parameter duration, attributes that "
    "depend on parameters; each compiled under the 8 combinations of (unroll_loops, inline_functions, "
    "expand_mx) and compared with (True, True, False).  non-trivial = model has both a loop and a call "
    "(always, by construction) and all 8 combinations compiled; distinct = distinct abstract model."
)
ASSUMPTIONS = [
    "a model on which the DEFAULT option set itself raises is outside this property (counted discard); a non-default combination raising where the default succeeds is a violation",
    "numeric agreement at 3 random points per function with identical inputs, tolerance 1e-8, NaN-aware",
]
SOFT_BUDGET_S = {"quick": 150, "thorough": 3000}
COMBOS = list(itertools.product([True, False], repeat=3))


@st.composite
def case_strategy(draw):
    m = draw(D.dae_model(D.Feat()))
    feats = D.features(m)
    n = m["n"]
    if not m["funcs"]:
        m["funcs"].append(draw(D.user_function("f0")))
    if "user_call" not in feats:
        fn = m["funcs"][0]
        args = [draw(st.sampled_from([["var", "s0"], ["var", "p0"], ["var", "u0"], ["real", "1.5"]])) for _ in fn["inputs"]]
        m["eqs"].append(["eq", ["var", "s3"], ["call", fn["name"]] + args])
    if "for" not in feats:
        cfg = X.Cfg(vars_=["s0", "s1", "p0"])
        m["eqs"].append(draw(D.for_eq(D.Feat(), n, cfg)))
    delay = draw(st.integers(0, 2)) == 0
    if delay:
        m["eqs"].append(["eq", ["var", "s2"], ["call", "delay", ["bin", "*", ["var", "s1"], ["real", "2.0"]], ["var", "p0"]]])
    # parameter-dependent attributes on a few variables (metadata must not depend on the options)
    for v in m["vars"]:
        if v["name"] in ("s0", "x") and draw(st.booleans()):
            v["attrs"] = {"max": ["bin", "*", ["int", 2], ["var", "p0"]], "start": ["real", "0.5"]}
        if v["name"] == "s1" and draw(st.booleans()):
            v["attrs"] = {"nominal": ["bin", "+", ["var", "p1"], ["var", "p0"]]}
    # a variable attribute that calls a piecewise-linear user function of the parameters (the function is also used
    # in an equation, otherwise it is not part of the flat model)
    if draw(st.integers(0, 3)) == 0:
        a = ["var", "a"]
        body = draw(st.sampled_from([
            ["call", "max", a, ["real", "0.5"]],
            ["bin", "+", ["call", "abs", ["bin", "-", a, ["real", "1.0"]]], ["real", "1.0"]],
            ["bin", "+", ["call", "min", a, ["real", "2.0"]], ["call", "max", a, ["real", "1.0"]]],
        ]))
        m["funcs"].append({"name": "fpl", "inputs": ["a"], "output": "r", "protected": [], "stmts": [["assign", "r", body]]})
        m["eqs"].append(["eq", ["var", "s3"], ["call", "fpl", ["var", draw(st.sampled_from(["s0", "u0", "p0"]))]]])
        attr = draw(st.sampled_from(["max", "nominal", "start"]))
        e = ["call", "fpl", ["var", "p0"]]
        if draw(st.booleans()):
            e = ["bin", "+", e, ["var", "p1"]]
        for v in m["vars"]:
            if v["name"] == "s2":
                v["attrs"] = {attr: e}
    # literals that agree in their first six significant digits (they print alike in CasADi) must stay distinct
    twins = draw(st.sampled_from([None, None, ("3.14159", "3.14159265358979"), ("1000001.0", "1000002.0"),
                                  ("0.3333333", "0.33333333333"), ("2.0", "2.0000001")]))
    if twins:
        a, b = ["var", draw(st.sampled_from(["s0", "s1", "p0"]))], ["var", draw(st.sampled_from(["s1", "s2", "u0"]))]
        m["eqs"].append(["eq", ["var", "s3"], ["bin", "+", ["bin", "*", ["real", twins[0]], a], ["bin", "*", ["real", twins[1]], b]]])
    # a base option that is not toggled: the three options are compared with and without expand_vectors
    base = {"expand_vectors": draw(st.integers(0, 2)) == 0}
    return {"model": m, "seed": draw(st.integers(0, 2**31 - 1)), "delay": delay, "twins": bool(twins), "base": base}


def compare_at_points(m, ref, got, seed, tag):
    import numpy as np

    from vf.canon import func_io, same_num

    rs = np.random.RandomState(seed % (2**31))
    for fn in ("dae_residual_function", "initial_residual_function", "delay_arguments_function"):
        fa, fb = getattr(ref, fn), getattr(got, fn)
        if func_io(fa) != func_io(fb):
            raise Violation("func_signature:%s" % fn, "%s: %s vs %s" % (tag, func_io(fa), func_io(fb)))
    for _ in range(3):
        env, der = D.make_env(m, rs)
        for mp in (env, der):  # element names used under expand_vectors
            for name, val in list(mp.items()):
                if np.ndim(val) > 0:
                    for idx in np.ndindex(*np.shape(val)):
                        mp["%s[%s]" % (name, ",".join(str(i + 1) for i in idx))] = float(np.asarray(val)[idx])
        for v in ref.inputs:
            env.setdefault(v.symbol.name(), rs.uniform(0.5, 3.0, size=(v.symbol.size1(), v.symbol.size2())))
        args = D.model_args(ref, env, der, None)
        for fn in ("dae_residual_function", "initial_residual_function", "delay_arguments_function"):
            oa = [np.array(o, dtype=float) for o in getattr(ref, fn).call(args)]
            ob = [np.array(o, dtype=float) for o in getattr(got, fn).call(args)]
            for k, (x, y) in enumerate(zip(oa, ob)):
                if not same_num(x, y, rtol=1e-8, atol=1e-8):
                    raise Violation("func_value:%s" % fn, "%s: output %d differs: %s vs %s" % (tag, k, x.reshape(-1)[:8], y.reshape(-1)[:8]))


def build(tree, opts):
    from pymoca.backends.casadi import generator

    model = generator.generate(tree, "M", opts)
    model.simplify(opts)
    return model


def check_case(ctx, case):
    from pymoca import parser

    m = case["model"]
    text = D.print_model(m)

    def fresh_tree():
        t = guarded(parser.parse, text, bypass_cache=True, where="parse")
        if t is None:
            raise Violation("valid_text_rejected", text)
        return t

    base = case.get("base", {})
    base_opts = dict(base, unroll_loops=True, inline_functions=True, expand_mx=False)
    try:
        ref = build(fresh_tree(), base_opts)
    except Exception as e:  # noqa: BLE001
        if pymoca_frame(e) == "?":
            raise
        raise Discard("default option set raises: " + type(e).__name__)
    for unroll, inline, expand in COMBOS:
        if (unroll, inline, expand) == (True, True, False):
            continue
        opts = dict(base, unroll_loops=unroll, inline_functions=inline, expand_mx=expand)
        tag = "unroll=%d,inline=%d,expand_mx=%d" % (unroll, inline, expand) + ("[expand_vectors]" if base.get("expand_vectors") else "")
        try:
            got = build(fresh_tree(), opts)
        except Exception as e:  # noqa: BLE001
            if pymoca_frame(e) == "?":
                raise
            raise Violation("option_set_raises:%s:%s" % (tag, type(e).__name__), "%s: %s\n%s" % (tag, str(e)[:300], text))
        try:
            # structure + attributes via the shared comparison; functions at points that respect
            # the variables' types (Booleans 0/1: SX and MX if_else differ for other "truth values")
            compare_models(ref, got, case["seed"], tag, funcs=("variable_metadata_function",))
            compare_at_points(m, ref, got, case["seed"], tag)
        except Violation as v:
            v.kind = "%s:%s" % (v.kind, tag)
            v.msg += "\n" + text
            raise
    feats = D.features(m)
    labels = sorted(f for f in feats if f.startswith("func:") or f in ("for", "for_shifted", "for_stepped", "if_eq", "user_call", "slice", "array_eq"))
    if case["delay"]:
        labels.append("delay")
    if case.get("twins"):
        labels.append("near_equal_literals")
    if any(fn["name"] == "fpl" for fn in m["funcs"]):
        labels.append("attribute_calls_piecewise_linear_function")
    labels.append("base:expand_vectors=%s" % bool(base.get("expand_vectors")))
    return dict(nontrivial=True, labels=labels, sample={"text": text})


def shard(ctx):
    drive(ctx, case_strategy(), check_case, ctx.share(150, 5000))


def replay(ctx, case):
    check_case(ctx, case)


MANIFEST = dict(
    text="Differential testing across the 8 representation option sets on generated models that exercise "
    "loops, function calls, delays and near-equal literals, with and without the untoggled base option expand_vectors: structure, metadata and all four functions must agree with "
    "the default option set at drawn points.",
    note="The default option set is the reference (its own correctness is C11's property); agreement is numeric at sampled points.",
    technique="property-based differential testing across option sets (metamorphic relation)",
)
