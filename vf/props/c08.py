"""C08 - Modifications take effect with Modelica precedence in either spelling.

A small fixed-shape hierarchy (type alias T, class A with leaf x, A2 extends A,
B with component a: A2, C with component b: B; a parameter k with a different
value in every scope) in which one or two attributes of the leaf are modified
at 2-5 competing levels with expressions that mention k.  Every case is printed
in the four spellings and a mixed one (a different spelling per modification list); each spelling must be rejected or flatten to the model
predicted by the reference flattener (outermost wins; expressions renamed by
the scope in which they are written)."""
from hypothesis import strategies as st

from vf.core import Violation, drive, isclose
from vf.gen import expr as X
from vf.gen import lib as L
from vf.ref import asteval
from vf.ref import flat as F

ID = "C08"
LEVEL = "exploration"
RULE = (
    "hierarchy T/A/A2/B/C with the leaf attribute(s) (value, start, min, max, nominal, fixed, unit) modified at a "
    "drawn subset of the levels {type alias, declaration, extends clause, second extends clause, enclosing component, "
    "enclosing-enclosing component}, expressions literal / k / k+c / c*k where k exists with a "
    "different value in every scope; each case printed in 4 spellings plus one mixing them per modification list (nested, a.x(start=..), "
    "a(x.start=..), a.x.start=..).  non-trivial = >= 3 levels compete for one attribute, or an "
    "expression mentions k at a level whose scope differs from the leaf's; distinct = distinct abstract case."
)
ASSUMPTIONS = [
    "a spelling counts as rejected when parse or flatten raises or parse returns no tree",
    "at least one of the spellings must be accepted (otherwise the first sentences of the statement could not hold for that variable at all)",
    "attribute values are compared by evaluation at the declared parameter values (5 / 3 / 2 per scope), not by shape",
]
SPELLINGS = ["nested", "dotted_elem", "dotted_attr", "dotted_all", "mixed"]  # mixed: a different one per modification list
ATTRS = ["start", "min", "max", "nominal", "value", "fixed", "unit"]
KVAL = {"KC": 5, "KB": 3, "KA": 2}


def comp(name, cls, prefixes=(), mods=(), value=None):
    return {"name": name, "cls": cls, "prefixes": list(prefixes), "dims": [], "mods": list(mods), "value": value}


@st.composite
def mod_expr(draw, allow_k=True):
    k = draw(st.integers(0, 3))
    c = draw(st.sampled_from([["int", 1], ["int", 4], ["real", "0.5"], ["real", "2.5"]]))
    if k == 0 or not allow_k:
        return c
    if k == 1:
        return ["var", "k"]
    if k == 2:
        return ["bin", "+", ["var", "k"], c]
    return ["bin", "*", c, ["var", "k"]]


@st.composite
def case_strategy(draw, ctx=None):
    attr1 = draw(st.sampled_from(ATTRS))
    attrs = [attr1]
    if draw(st.integers(0, 2)) == 0:
        attrs.append(draw(st.sampled_from([a for a in ATTRS if a != attr1])))
    leaf_param = draw(st.booleans())
    use_alias = draw(st.booleans())
    top = draw(st.sampled_from(["KC", "KC", "KB"]))
    layout = draw(st.sampled_from(["top", "top", "local", "package"]))
    chain = True
    if layout == "local" and ctx is not None and ctx.known("local_extends_scope"):
        # known finding: modifications inherited from a LOCAL base class keep the base's scope and are dropped
        chain = False
        ctx.exclude("local_extends_scope")
    levels = ["type", "decl"] + (["extends", "extends2"] if chain else []) + ["comp"] + (["outer"] if top == "KC" else [])
    mods = {lv: [] for lv in levels}
    for a in attrs:
        n = draw(st.integers(2, len(levels)))
        chosen = draw(st.permutations(levels))[:n]
        for lv in chosen:
            if lv == "type" and (a == "value" or not use_alias):
                continue
            if a == "fixed":
                e = ["bool", draw(st.booleans())]
            elif a == "unit":
                e = ["str", draw(st.sampled_from(["m", "kg", "m/s", "K"]))]
            else:
                e = draw(mod_expr(allow_k=lv != "type"))
            mods[lv].append([a, e])
    mix = draw(st.lists(st.integers(0, 3), min_size=6, max_size=6))
    return {"attrs": attrs, "leaf_param": leaf_param, "alias": use_alias, "top": top, "mods": mods, "layout": layout, "chain": chain,
            "mix": mix}


def build_lib(case):
    m = case["mods"]

    def mk(path, lv):
        return [{"path": list(path), "attr": a, "expr": e} for a, e in m.get(lv, [])]

    classes = []
    if case["alias"]:
        classes.append({"id": "KT", "parent": None, "kind": "type", "base": "Real", "mods": mk([], "type")})
    leaf_cls = "KT" if case["alias"] else "Real"
    decl_mods = mk([], "decl")
    classes.append({"id": "KA", "parent": None, "kind": "model", "extends": [], "eqs": [], "ieqs": [], "comps": [
        comp("k", "Real", ["parameter"], value=["int", KVAL["KA"]]),
        comp("x", leaf_cls, ["parameter"] if case["leaf_param"] else [], mods=decl_mods),
    ]})
    chain = case.get("chain", True)
    if chain:
        classes.append({"id": "KA2", "parent": None, "kind": "model", "extends": [{"cls": "KA", "mods": mk(["x"], "extends")}],
                        "comps": [], "eqs": [], "ieqs": []})
        # second extends level: A3 extends A2(x(..)) overrides what A2's own extends clause says
        classes.append({"id": "KA3", "parent": None, "kind": "model", "extends": [{"cls": "KA2", "mods": mk(["x"], "extends2")}],
                        "comps": [], "eqs": [], "ieqs": []})
    classes.append({"id": "KB", "parent": None, "kind": "model", "extends": [], "eqs": [], "ieqs": [], "comps": [
        comp("k", "Real", ["parameter"], value=["int", KVAL["KB"]]),
        comp("a", "KA3" if chain else "KA", mods=mk(["x"], "comp")),
    ]})
    if case["top"] == "KC":
        classes.append({"id": "KC", "parent": None, "kind": "model", "extends": [], "eqs": [], "ieqs": [], "comps": [
            comp("k", "Real", ["parameter"], value=["int", KVAL["KC"]]),
            comp("b", "KB", mods=mk(["a", "x"], "outer")),
        ]})
    layout = case.get("layout", "top")
    if layout == "local":
        # every other class is a local class of the flattened model
        top = [c for c in classes if c["id"] == case["top"]][0]
        for c in classes:
            if c is not top:
                c["parent"] = case["top"]
        classes = [top] + [c for c in classes if c is not top]
    elif layout == "package":
        for c in classes:
            c["parent"] = "KP"
        classes = [{"id": "KP", "parent": None, "kind": "package"}] + classes
    return L.Lib({"classes": classes})


def env_for(top):
    if top == "KC":
        return {"k": 5.0, "b.k": 3.0, "b.a.k": 2.0}, "b.a.x"
    return {"k": 3.0, "a.k": 2.0}, "a.x"


def none_or(v):
    if v is None or isinstance(v, (bool, str)):
        return v
    return float(v)


def expected_summary(case):
    lib = build_lib(case)
    ref = F.instantiate(lib, case["top"])
    env, leaf = env_for(case["top"])
    rv = ref.vars[leaf]
    out = {}
    for a in ATTRS:
        out[a] = none_or(X.evaluate(rv["attrs"][a], env)) if a in rv["attrs"] else None
    return out, leaf, env


def flat_summary(fc, leaf, env, leaf_param):
    from pymoca import ast

    if leaf not in fc.symbols:
        raise Violation("leaf_missing", "flat class has no %s: %r" % (leaf, list(fc.symbols)))
    sym = fc.symbols[leaf]
    out = {}
    for a in ATTRS:
        node = getattr(sym, a)
        if isinstance(node, ast.Primary) and node.value is None:
            out[a] = None
        else:
            out[a] = none_or(asteval.evaluate(node, env))
    # a value on a non-parameter leaf is moved into an equation "leaf = value" by flatten
    for q in fc.equations:
        left = q.left
        lname = left.name if isinstance(left, (ast.Symbol, ast.ComponentRef)) else None
        if lname == leaf:
            v = none_or(asteval.evaluate(q.right, env))
            if out["value"] is not None and out["value"] != v:
                raise Violation("value_twice", "%s has value %r and equation value %r" % (leaf, out["value"], v))
            out["value"] = v
    return out


def check_case(ctx, case):
    try:
        return _check_case(ctx, case)
    except Violation as v:
        if case.get("layout") == "local" and case.get("chain", True):
            v.kind += "+local_extends_scope"
        raise


def _check_case(ctx, case):
    from pymoca import ast, parser, tree

    lib = build_lib(case)
    exp, leaf, env = expected_summary(case)
    results = {}
    texts = {}
    for sp in SPELLINGS:
        text = L.print_lib(lib, L.Mix(case.get("mix", [0, 3, 1, 2, 3, 0])) if sp == "mixed" else sp)
        texts[sp] = text
        try:
            t = parser.parse(text, bypass_cache=True)
            if t is None:
                results[sp] = ("rejected", "syntax")
                continue
            path = ".".join(lib.path(case["top"]))
            fc = tree.flatten(t, ast.ComponentRef.from_string(path)).classes[path]
        except Exception as e:  # noqa: BLE001 - "rejected" is an accepted outcome per spelling
            results[sp] = ("rejected", type(e).__name__)
            continue
        try:
            results[sp] = ("ok", flat_summary(fc, leaf, env, case["leaf_param"]))
        except asteval.AstEvalError as e:
            results[sp] = ("ok", {"unresolved": str(e)})
    accepted = [sp for sp in SPELLINGS if results[sp][0] == "ok"]
    if not accepted:
        raise Violation("all_spellings_rejected", "%r\n%s" % ({s: results[s][1] for s in SPELLINGS}, texts["nested"]))
    levels_for = {}
    for lv, ms in case["mods"].items():
        for a, e in ms:
            levels_for.setdefault(a, []).append(lv)
    for sp in accepted:
        got = results[sp][1]
        if "unresolved" in got:
            raise Violation("unresolved_reference:" + sp, "%s\n%s" % (got["unresolved"], texts[sp]))
        for a in ATTRS:
            g, w = got[a], exp[a]
            if a == "fixed":
                g, w = bool(g), bool(w)  # unspecified fixed is false
            if (g is None) != (w is None) or (g is not None and not (g == w if isinstance(w, (bool, str)) else isclose(g, w, 1e-9, 1e-12))):
                # classify: wrong attribute target, wrong scope or wrong precedence
                kind = "attribute:%s" % ("value" if a == "value" else "attr")
                raise Violation(
                    "%s:%s" % (sp, kind),
                    "spelling %s: %s.%s = %r expected %r (all: got %r expected %r)\n%s" % (sp, leaf, a, g, w, got, exp, texts[sp]),
                )
    compete = max(len(v) for v in levels_for.values()) if levels_for else 0
    scope_sensitive = any(
        lv in ("comp", "outer") and any(n[0] == "var" for n in X.walk(e)) for lv, ms in case["mods"].items() for a, e in ms
    )
    labels = ["top:" + case["top"], "accepted:%d" % len(accepted), "layout:" + case.get("layout", "top")]
    labels += ["rejected:" + sp for sp in SPELLINGS if results[sp][0] != "ok"]
    labels += ["level:" + lv for lv, ms in case["mods"].items() if ms]
    labels += ["attr:" + a for a in case["attrs"]]
    if scope_sensitive:
        labels.append("scope_sensitive")
    return dict(nontrivial=compete >= 3 or scope_sensitive, labels=labels,
                sample={"nested": texts["nested"], "dotted_all": texts["dotted_all"], "expected": exp})


def shard(ctx):
    drive(ctx, case_strategy(ctx), check_case, ctx.share(600, 30000))


def replay(ctx, case):
    check_case(ctx, case)


MANIFEST = dict(
    text="Competing modifications of one leaf attribute at up to five levels, with scope-sensitive "
    "expressions, printed in all four spellings and in a text that mixes them; every accepted spelling must flatten to the model "
    "computed by the reference flattener (precedence + scope), so spellings can never disagree "
    "silently.  Sampling over level subsets, attributes, expressions.",
    note="Trusts the reference flattener's modification rules (MLS 7.2: outermost wins, extends-clause over base, expressions in the scope where written) and numeric evaluation of attribute expressions at the declared parameter values.",
    technique="property-based testing: reference-model oracle plus metamorphic relation across equivalent spellings (four pure, one mixed)",
)
