"""C14 - Simplification preserves the DAE's solutions  (also the engine of C15).

Generator "G-dae-solved": triangular models with a known unique solution.
Given values for time, states, inputs, parameters and constants, equation k
defines a new unknown (a state derivative or an algebraic variable) from
already-determined quantities by an explicit, implicit-affine, scaled, alias
(+/-, a+b=0, a-b=0), constant or (nonlinear family) smooth explicit form; the
reference solution s* is computed by forward substitution on the ABSTRACT
model.  Equations are printed in a shuffled order.  Each model is simplified
under a drawn option set; options with a precondition are only drawn when the
generator knows the precondition holds."""
import math

import numpy as np
from hypothesis import strategies as st

from vf import env as venv
from vf.core import Discard, Violation, drive, guarded, pymoca_frame
from vf.gen import dae as D
from vf.gen import expr as X

ID = "C14"
LEVEL = "exploration"
RULE = (
    "triangular models (1-2 states, 3-8 algebraic variables incl. *_elim names and an optional 2-element "
    "array, an input, literal/expression parameters and constants - in a fifth of the models none of them in the DAE equations, and in a third a parameter and a constant that occur in initial equations only; affine family or nonlinear family) "
    "with a known solution s*, x option sets: each of the 11 Boolean simplification options drawn "
    "independently, eliminable_variable_expression in {None, '.*_elim'} (forces expand_mx), "
    "allow_derivative_aliases, iterative_simplification; reduce_affine_expression only for the affine "
    "family.  non-trivial = >= 2 options on and >= 1 variable actually eliminated; distinct = distinct (model, options)."
)
ASSUMPTIONS = [
    "an exception from generate/simplify, or a WARNING logged during simplify that says the result is incomplete ('exceeded maximum iteration limit', 'not balanced'), counts as 'reports failure' and ends the case as a pass (counted; the fraction is in the evidence); warnings about a result that is still offered as valid (symbolic instead of numeric affine matrix, which start value was kept) exempt nothing",
    "absence of additional solutions is checked locally: the Jacobian of the simplified residual w.r.t. the remaining derivative/algebraic unknowns has full column rank at s* (not applied to the one gadget whose model as generated is a constraint between two states, i.e. rank deficient itself; there s* is the solution of the differentiated constraint)",
    "parameters and constants are fixed at their declared values, as the statement says",
    "reduce_affine_expression is only drawn for models affine in states/derivatives/algebraics/inputs without time; all constant factors are finite and non-zero (the stated preconditions)",
]
SOFT_BUDGET_S = {"quick": 150, "thorough": 3000}

BOOL_OPTS = [
    "expand_vectors", "resolve_parameter_values", "replace_parameter_expressions", "replace_constant_expressions",
    "eliminate_constant_assignments", "replace_parameter_values", "replace_constant_values",
    "factor_and_simplify_equations", "detect_aliases", "reduce_affine_expression", "expand_mx",
]


# ------------------------------------------------------------------ generator
def lit(v):
    return ["real", repr(float(v))]


KCOEF = [["real", "2.0"], ["real", "0.5"], ["real", "1.5"], ["int", 3], ["real", "2.5"]]


@st.composite
def solved_model(draw):
    family = draw(st.sampled_from(["affine", "affine", "nonlinear"]))
    use_time = family == "nonlinear" and draw(st.booleans())
    ns = draw(st.integers(1, 2))
    na = draw(st.integers(3, 7))
    use_array = draw(st.integers(0, 3)) == 0
    states = ["x%d" % i for i in range(ns)]
    algs = []
    for j in range(na):
        algs.append("a%d%s" % (j, "_elim" if draw(st.integers(0, 3)) == 0 else ""))
    vals = {"time": 1.25, "u0": draw(st.sampled_from([0.75, 1.5, 2.25])), "p0": 1.5, "c0": 0.75}
    vals["p1"] = 2 * vals["p0"] + 1  # parameter expression
    vals["c1"] = 2 * vals["c0"]  # constant expression
    for i, s in enumerate(states):
        vals[s] = draw(st.sampled_from([0.5, 1.25, 2.0, 3.5])) + 0.125 * i
    vars_ = [D.var(s) for s in states] + [D.var(a) for a in algs]
    vars_ += [D.var("u0", prefix="input"),
              D.var("p0", prefix="parameter", value=["real", "1.5"]),
              D.var("p1", prefix="parameter", value=["bin", "+", ["bin", "*", ["int", 2], ["var", "p0"]], ["int", 1]]),
              D.var("c0", prefix="constant", value=["real", "0.75"]),
              D.var("c1", prefix="constant", value=["bin", "*", ["int", 2], ["var", "c0"]])]
    if use_array:
        vars_.append(D.var("w", dims=[2]))
    # now and then the DAE equations mention no parameter and no constant at all (the initial equations may)
    plain_dae = draw(st.integers(0, 4)) == 0
    known = [["var", s] for s in states] + [["var", "u0"]]
    if not plain_dae:
        known += [["var", "p0"], ["var", "p1"], ["var", "c0"], ["var", "c1"]]
    if use_time:
        known.append(["time"])
    coefs = KCOEF + ([] if plain_dae else [["var", "p0"], ["var", "c0"], ["var", "p1"]])
    unknowns = [("der", s) for s in states] + [("alg", a) for a in algs]
    if use_array:
        unknowns += [("elem", 1), ("elem", 2)]
    order = draw(st.permutations(unknowns))
    determined = list(known)  # expression nodes whose value is known at this point
    alias_targets = [["var", s] for s in states] + [["var", "u0"]]  # things an alias may point at
    eqs, kinds = [], []
    overflow = []

    def ev(e):
        return D.E(vals, "casadi", der=ders).ev(e)

    ders = {}

    def unknown_node(u):
        if u[0] == "der":
            return ["der", ["var", u[1]]]
        if u[0] == "alg":
            return ["var", u[1]]
        return ["idx", "w", u[1]]

    def set_value(u, v):
        if u[0] == "der":
            ders[u[1]] = v
        elif u[0] == "alg":
            vals[u[1]] = v
        else:
            w = vals.setdefault("w", [0.0, 0.0])
            w[u[1] - 1] = v

    def small_expr(nterms):
        terms = []
        for _ in range(nterms):
            d = draw(st.sampled_from(determined))
            k = draw(st.sampled_from(coefs))
            terms.append(["bin", "*", k, d])
        e = terms[0]
        for t in terms[1:]:
            e = ["bin", draw(st.sampled_from(["+", "-"])), e, t]
        if draw(st.booleans()):
            e = ["bin", "+", e, draw(st.sampled_from(KCOEF))]
        return e

    for u in order:
        w = unknown_node(u)
        choices = ["explicit", "explicit", "implicit", "scaled"]
        if u[0] == "alg":
            choices += ["alias", "alias", "alias", "constant"]
            if len(alias_targets) > 0:
                choices += ["alias"]
        if u[0] == "elem":
            choices += ["alias"]  # one element of the vector is an alias of something
        if u[0] == "der":
            choices += ["alias_der"]
        if family == "nonlinear":
            choices += ["nonlinear", "nonlinear"]
        kind = draw(st.sampled_from(choices))
        if kind in ("alias", "alias_der"):
            tgt = draw(st.sampled_from(alias_targets))
            form = draw(st.sampled_from(["eq", "eq_rev", "neg", "sum0", "diff0"]))
            tv = ev(tgt)
            if form == "eq":
                eqs.append(["eq", w, tgt]); v = tv
            elif form == "eq_rev":
                eqs.append(["eq", tgt, w]); v = tv
            elif form == "neg":
                eqs.append(["eq", w, ["neg", tgt]]); v = -tv
            elif form == "sum0":
                eqs.append(["eq", ["bin", "+", w, tgt], ["int", 0]]); v = -tv
            else:
                eqs.append(["eq", ["bin", "-", w, tgt], ["int", 0]]); v = tv
            kinds.append("alias:" + form)
        elif kind == "constant":
            c = draw(st.sampled_from([0.0, 3.5, -1.25]))
            form = draw(st.sampled_from(["lit", "lit_rev", "neglit"]))
            if c == 0.0:
                eqs.append(["eq", w, ["int", 0]] if form != "lit_rev" else ["eq", ["int", 0], w]); v = 0.0
            elif form == "lit":
                eqs.append(["eq", w, lit(c) if c > 0 else ["neg", lit(-c)]]); v = c
            elif form == "lit_rev":
                eqs.append(["eq", lit(abs(c)), w]); v = abs(c)
            else:
                eqs.append(["eq", ["bin", "+", w, lit(abs(c))], ["int", 0]]); v = -abs(c)
            kinds.append("constant")
        elif kind == "explicit":
            rhs = small_expr(draw(st.integers(1, 3)))
            eqs.append(["eq", w, rhs]); v = ev(rhs)
            kinds.append("explicit")
        elif kind == "implicit":
            k1 = draw(st.sampled_from(KCOEF))
            rest = small_expr(draw(st.integers(1, 2)))
            k0 = draw(st.sampled_from(KCOEF))
            eqs.append(["eq", ["bin", "+", ["bin", "*", k1, w], rest], k0])
            v = (ev(k0) - ev(rest)) / ev(k1)
            kinds.append("implicit")
        elif kind == "scaled":
            rhs = small_expr(draw(st.integers(1, 2)))
            k = draw(st.sampled_from(KCOEF[:5]))
            if draw(st.booleans()):
                eqs.append(["eq", ["int", 0], ["bin", "*", k, ["bin", "-", w, rhs]]])
            else:
                eqs.append(["eq", ["bin", "/", ["bin", "-", w, rhs], k], ["int", 0]])
            v = ev(rhs)
            kinds.append("scaled")
        else:
            d1, d2 = draw(st.sampled_from(determined)), draw(st.sampled_from(determined))
            form = draw(st.sampled_from(["exp", "prod", "sin"]))
            if form == "exp":
                rhs = ["bin", "+", ["call", "exp", ["bin", "/", d1, ["int", 8]]], d2]
            elif form == "prod":
                rhs = ["bin", "*", d1, d2]
            else:
                rhs = ["bin", "+", ["call", "sin", d1], ["bin", "*", ["real", "0.5"], d2]]
            eqs.append(["eq", w, rhs]); v = ev(rhs)
            kinds.append("nonlinear")
        if not math.isfinite(v) or abs(v) > 1e6:
            # out of numeric range (exp of a large value): no usable reference solution; the case is discarded
            overflow.append(str(u))
            v = 1.0
        set_value(u, v)
        determined.append(w)
        if u[0] == "alg":
            alias_targets.append(w)
    # alias cluster: 3-4 fresh algebraic variables and one protected anchor (state, input or
    # parameter) joined by a random spanning tree of alias equations with random orientation and
    # sign; together with the shuffled printing order this merges alias groups in every order
    cluster = draw(st.integers(0, 1)) == 1
    if cluster:
        anchor = draw(st.sampled_from([["var", states[0]], ["var", "u0"]] + ([] if plain_dae else [["var", "p0"]])))
        nodes = [(anchor, ev(anchor))]
        for gi in range(draw(st.integers(3, 4))):
            gname = "g%d" % gi
            vars_.append(D.var(gname))
            gnode = ["var", gname]
            tgt, tv = nodes[draw(st.integers(0, len(nodes) - 1))]
            form = draw(st.sampled_from(["eq", "eq_rev", "eq", "eq_rev", "neg", "neg_rev", "sum0", "sum0_rev", "diff0", "diff0_rev"]))
            if form == "eq":
                eqs.append(["eq", gnode, tgt]); v = tv
            elif form == "eq_rev":
                eqs.append(["eq", tgt, gnode]); v = tv
            elif form == "neg":
                eqs.append(["eq", gnode, ["neg", tgt]]); v = -tv
            elif form == "neg_rev":
                eqs.append(["eq", tgt, ["neg", gnode]]); v = -tv
            elif form == "sum0":
                eqs.append(["eq", ["bin", "+", gnode, tgt], ["int", 0]]); v = -tv
            elif form == "sum0_rev":
                eqs.append(["eq", ["bin", "+", tgt, gnode], ["int", 0]]); v = -tv
            elif form == "diff0":
                eqs.append(["eq", ["bin", "-", gnode, tgt], ["int", 0]]); v = tv
            else:
                eqs.append(["eq", ["bin", "-", tgt, gnode], ["int", 0]]); v = tv
            vals[gname] = v
            nodes.append((gnode, v))
        kinds.append("alias_cluster")
    # alias chain hanging on a constant: h0 is a constant (declared c0, or a literal assignment that
    # eliminate_constant_assignments turns into one), h1 is tied to h0 and - in a later equation, either way
    # round - to h2
    cchain = draw(st.integers(0, 3)) == 0
    if cchain:
        for hn in ("h0", "h1", "h2"):
            vars_.append(D.var(hn))
        src = draw(st.sampled_from(["literal", "literal", "declared"]))
        hv = 3.5 if src == "literal" else vals["c0"]
        vals["h0"] = vals["h1"] = vals["h2"] = hv
        first = ["eq", ["var", "h0"], lit(hv) if src == "literal" else ["var", "c0"]]
        if draw(st.booleans()):
            first = ["eq", first[2], first[1]]
        link1 = draw(st.sampled_from([["eq", ["var", "h1"], ["var", "h0"]], ["eq", ["var", "h0"], ["var", "h1"]],
                                      ["eq", ["bin", "-", ["var", "h1"], ["var", "h0"]], ["int", 0]]]))
        link2 = draw(st.sampled_from([["eq", ["var", "h1"], ["var", "h2"]], ["eq", ["var", "h2"], ["var", "h1"]],
                                      ["eq", ["bin", "-", ["var", "h1"], ["var", "h2"]], ["int", 0]]]))
        eqs += [first, link1, link2]
        kinds.append("constant_alias_chain:" + src)
    # an eliminable DIFFERENTIATED variable defined through an eliminable algebraic one:
    #   xs_elim = k * t_elim;  t_elim = yq + c;  der(xs_elim) = d     (eliminating xs_elim promotes t_elim to a
    # state, eliminating t_elim promotes yq); derivative values of the promoted variables follow from the chain
    chain = draw(st.integers(0, 3)) == 0
    if chain:
        k = draw(st.sampled_from([2.0, 3.0, 0.5]))
        c = draw(st.sampled_from([1.0, 0.25]))
        d = draw(st.sampled_from([1.0, 2.5]))
        xv = draw(st.sampled_from([1.5, 3.0]))
        mid = draw(st.sampled_from(["t_elim", "t_elim", "tq"]))
        vars_ += [D.var("xs_elim"), D.var(mid), D.var("yq")]
        vals["xs_elim"], vals[mid], vals["yq"] = xv, xv / k, xv / k - c
        ders["xs_elim"], ders[mid], ders["yq"] = d, d / k, d / k
        eqs += [["eq", ["var", "xs_elim"], ["bin", "*", lit(k), ["var", mid]]],
                ["eq", ["var", mid], ["bin", "+", ["var", "yq"], lit(c)]],
                ["eq", ["der", ["var", "xs_elim"]], lit(d)]]
        kinds.append("eliminable_state_chain")
    # two eliminable DIFFERENTIATED variables in a chain:  xu_elim = k*yr;  xv_elim = m*xu_elim;
    # der(xu_elim) + der(xv_elim) = d.  Before the elimination this is a constraint between two states (the
    # residual alone does not determine der(xu_elim) and der(xv_elim): the rank clause is then not applied, see
    # run_case); the values below are those of the differentiated constraint, so that they satisfy both the
    # original and the correctly simplified residual ((k + m*k) * der(yr) = d).  (A variant that is regular
    # before the elimination needs a two-term right-hand side, for which pymoca's own substitution loop logs
    # "exceeded maximum iteration limit" - a failure report - also on the unchanged tree.)
    chain2 = draw(st.integers(0, 4)) == 0
    if chain2:
        k = draw(st.sampled_from([2.0, 3.0, 0.5]))
        m = draw(st.sampled_from([2.0, 0.5]))
        d = draw(st.sampled_from([9.0, 2.5]))
        xv = draw(st.sampled_from([1.5, 3.0]))
        vars_ += [D.var("xu_elim"), D.var("xv_elim"), D.var("yr")]
        vals["xu_elim"], vals["xv_elim"], vals["yr"] = xv, m * xv, xv / k
        da = d / (1.0 + m)
        ders["xu_elim"], ders["xv_elim"], ders["yr"] = da, m * da, da / k
        eqs += [["eq", ["var", "xu_elim"], ["bin", "*", lit(k), ["var", "yr"]]],
                ["eq", ["var", "xv_elim"], ["bin", "*", lit(m), ["var", "xu_elim"]]],
                ["eq", ["bin", "+", ["der", ["var", "xu_elim"]], ["der", ["var", "xv_elim"]]], lit(d)]]
        kinds.append("eliminable_state_chain")
        kinds.append("eliminable_two_states")
    shuffled = draw(st.permutations(list(range(len(eqs)))))
    ieqs = [["eq", ["var", s], lit(vals[s])] for s in states if draw(st.booleans())]
    # a parameter and a constant that occur in initial equations only (never in the DAE equations)
    only_init = plain_dae or draw(st.integers(0, 2)) == 0
    if plain_dae:
        kinds.append("dae_without_parameters")
    if only_init:
        vals["q0"], vals["k0"] = 2.5, 1.25
        vars_ += [D.var("q0", prefix="parameter", value=["real", "2.5"]), D.var("k0", prefix="constant", value=["real", "1.25"])]
        for i, q in enumerate(ieqs):
            name = draw(st.sampled_from(["q0", "k0", "q0", None]))
            if name is None:
                continue
            c = draw(st.sampled_from([1.0, 2.0, 0.5]))
            rest = vals[q[1][1]] - c * vals[name]
            rest_e = lit(rest) if rest >= 0 else ["neg", lit(-rest)]
            term = ["var", name] if c == 1.0 else ["bin", "*", lit(c), ["var", name]]
            ieqs[i] = ["eq", q[1], ["bin", "+", term, rest_e]]
        kinds.append("initial_only_parameter")
    # initial equations over algebraic variables too (they hold at s* by construction), so that
    # eliminations must reach the initial equations as well
    for a in algs:
        if draw(st.integers(0, 3)) == 0:
            ieqs.append(["eq", ["var", a], lit(vals[a]) if vals[a] >= 0 else ["neg", lit(-vals[a])]])
    model = {"name": "M", "n": 2, "m": 2, "vars": vars_, "funcs": [], "eqs": [eqs[i] for i in shuffled], "ieqs": ieqs}
    return {"model": model, "family": family, "time": use_time, "kinds": sorted(set(kinds)), "cluster": cluster, "overflow": bool(overflow),
            "sol": {k: (list(v) if isinstance(v, list) else v) for k, v in vals.items()}, "der": dict(ders)}


@st.composite
def option_set(draw, family, use_time):
    o = {}
    for k in BOOL_OPTS:
        o[k] = draw(st.booleans())
    if family != "affine" or use_time:
        o["reduce_affine_expression"] = False
    if draw(st.integers(0, 2)) == 0:
        o["eliminable_variable_expression"] = ".*_elim"
        o["expand_mx"] = True
    o["allow_derivative_aliases"] = draw(st.booleans())
    # a second pass after reduce_affine_expression / expand_vectors makes simplify raise ("reports
    # failure"): legal, but uninformative, so that combination is drawn rarely
    rare = o["reduce_affine_expression"] or o["expand_vectors"]
    if draw(st.integers(0, 15 if rare else 3)) == 0:
        o["iterative_simplification"] = True
    return o


@st.composite
def case_strategy(draw):
    c = draw(solved_model())
    c["options"] = draw(option_set(c["family"], c["time"]))
    if c.get("cluster") and draw(st.integers(0, 3)) > 0:
        c["options"]["detect_aliases"] = True
    if any(k.startswith("constant_alias_chain") for k in c["kinds"]) and draw(st.integers(0, 3)) > 0:
        c["options"]["detect_aliases"] = True
        c["options"]["eliminate_constant_assignments"] = draw(st.integers(0, 3)) > 0
        c["options"]["replace_constant_values"] = draw(st.integers(0, 2)) == 0
    if "eliminable_state_chain" in c["kinds"] and draw(st.integers(0, 3)) > 0:
        c["options"]["eliminable_variable_expression"] = ".*_elim"
        c["options"]["expand_mx"] = True
    if "dae_without_parameters" in c["kinds"] and c["family"] == "affine" and not c["time"] and draw(st.integers(0, 3)) > 0:
        # the affine reduction treats the two equation lists one after the other
        c["options"]["reduce_affine_expression"] = True
        c["options"]["iterative_simplification"] = False
    return c


# ------------------------------------------------------------------ oracle helpers
def sol_lookup(case):
    sol, der = case["sol"], case["der"]

    def get(name):
        if name.startswith("der(") and name.endswith(")"):
            inner = name[4:-1]
            return float(der[inner])
        if name in sol:
            v = sol[name]
            return np.array(v, dtype=float) if isinstance(v, list) else float(v)
        if "[" in name:  # expanded element  w[2]
            base, idx = name[:-1].split("[")
            return float(sol[base][int(idx) - 1])
        raise KeyError(name)

    return get


def n_elems(vs):
    return sum(v.symbol.size1() * v.symbol.size2() for v in vs)


def balance(model):
    f = model.dae_residual_function
    nres = sum(f.size1_out(i) * f.size2_out(i) for i in range(f.n_out()))
    return n_elems(model.states) + n_elems(model.alg_states) - nres


def build_args(model, get, const_values):
    import casadi as ca

    def vec(vs, const=False):
        out = []
        for v in vs:
            name = v.symbol.name()
            if const and name in const_values:
                val = const_values[name]
            else:
                val = get(name)
            out += list(np.atleast_1d(np.array(val, dtype=float)).flatten(order="F"))
        return ca.DM(out) if out else ca.DM.zeros(0, 1)

    return [ca.DM(get("time")), vec(model.states), vec(model.der_states), vec(model.alg_states),
            vec(model.inputs), vec(model.constants, True), vec(model.parameters)]


def num_attr(x):
    import casadi as ca

    if isinstance(x, ca.MX):
        if not x.is_constant():
            return None
        return np.array(ca.DM(x.to_DM()) if hasattr(x, "to_DM") else ca.evalf(x), dtype=float)
    return np.array(x, dtype=float)


FAILURE_WARNINGS = ("exceeded maximum iteration limit", "not balanced")


def run_case(ctx, case, which):
    import casadi as ca
    from pymoca import parser
    from pymoca.backends.casadi import generator

    if case.get("overflow"):
        raise Discard("reference solution out of numeric range")
    m = case["model"]
    text = D.print_model(m)
    opts = dict(case["options"])
    tree = guarded(parser.parse, text, bypass_cache=True, where="parse")
    if tree is None:
        raise Violation("valid_text_rejected", text)
    try:
        model = generator.generate(tree, "M", opts)
    except Exception as e:  # noqa: BLE001 - "reports failure"
        if pymoca_frame(e) == "?":
            raise
        ctx.extra["reported_failure:generate:" + type(e).__name__] += 1
        raise Discard("generate reports failure")
    get = sol_lookup(case)
    names0 = {c: [v.symbol.name() for v in getattr(model, c)] for c in ("states", "alg_states", "constants", "parameters", "inputs")}
    bal0 = balance(model)
    # harness self-check: s* must satisfy the model as generated, otherwise there is nothing to compare with
    try:
        f0 = model.dae_residual_function
        args0 = build_args(model, get, {"c0": case["sol"]["c0"], "c1": case["sol"]["c1"], "k0": case["sol"].get("k0", 0.0)})
        r0 = np.array(f0.call(args0)[0], dtype=float).reshape(-1) if f0.n_out() else np.zeros(0)
    except Exception as e:  # noqa: BLE001
        if pymoca_frame(e) == "?":
            raise
        r0 = None
    if r0 is not None and r0.size and (not np.all(np.isfinite(r0)) or np.max(np.abs(r0)) > 1e-7 * max(1.0, max_abs(case))):
        raise Discard("reference solution does not satisfy the model as generated")
    # is the model as generated regular at s* (its residual determines the derivative/algebraic unknowns)?
    regular0 = True
    if "eliminable_two_states" in case.get("kinds", ()):
        try:
            f0 = model.dae_residual_function
            args0 = build_args(model, get, {"c0": case["sol"]["c0"], "c1": case["sol"]["c1"], "k0": case["sol"].get("k0", 0.0)})
            ins0 = [ca.MX.sym("j%d" % i, *f0.size_in(i)) for i in range(f0.n_in())]
            J0 = ca.Function("J0", ins0, [ca.jacobian(f0.call(ins0)[0], ca.vertcat(ins0[2], ins0[3]))])
            Jv0 = np.array(J0.call(args0)[0], dtype=float)
            regular0 = bool(Jv0.size) and np.linalg.matrix_rank(Jv0, tol=1e-9) == Jv0.shape[1]
        except Exception as e:  # noqa: BLE001
            if pymoca_frame(e) == "?":
                raise
            regular0 = False
    with venv.LogCapture() as log:
        try:
            model.simplify(opts)
        except Exception as e:  # noqa: BLE001 - "reports failure"
            if pymoca_frame(e) == "?":
                raise
            ctx.extra["reported_failure:simplify:" + type(e).__name__] += 1
            raise Discard("simplify reports failure by exception")
    # "reports failure with a warning": the warnings that say the result is incomplete.  The others state
    # something about a result that is still offered as valid (symbolic instead of numeric matrix, which
    # start value was kept) and exempt nothing.
    messages = [r.getMessage() for r in log.records]
    warned = [t[:60] for t in messages if any(k in t for k in FAILURE_WARNINGS)]
    info_warned = len(messages) > len(warned)
    tail = "\noptions=%r\n%s" % ({k: v for k, v in opts.items() if v}, text)
    # ---- functions must construct and evaluate (C15, and needed below)
    try:
        f = model.dae_residual_function
        fi = model.initial_residual_function
    except Exception as e:  # noqa: BLE001
        raise Violation("function_construction:" + type(e).__name__, str(e)[:300] + tail)
    orig_const = {"c0": case["sol"]["c0"], "c1": case["sol"]["c1"]}
    const_values = dict(orig_const)
    moved = []
    for v in model.constants:
        nm = v.symbol.name()
        if nm not in orig_const:
            moved.append(v)
            val = num_attr(v.value)
            if val is not None:
                const_values[nm] = val
    try:
        args = build_args(model, get, const_values)
    except KeyError as e:
        raise Violation("unknown_variable_after_simplify", "variable %s is not a variable of the original model%s" % (e, tail))
    try:
        res = np.array(f.call(args)[0], dtype=float).reshape(-1) if f.n_out() else np.zeros(0)
        ires = np.array(fi.call(args)[0], dtype=float).reshape(-1) if fi.n_out() else np.zeros(0)
    except Exception as e:  # noqa: BLE001
        raise Violation("function_evaluation:" + type(e).__name__, str(e)[:300] + tail)
    bal1 = balance(model)
    removed = (len(names0["states"]) + len(names0["alg_states"])) - (len(model.states) + len(model.alg_states))
    n_on = sum(1 for k in BOOL_OPTS if opts.get(k)) + (1 if opts.get("eliminable_variable_expression") else 0)
    labels = ["family:" + case["family"]] + ["opt:" + k for k in BOOL_OPTS if opts.get(k)] + ["kind:" + k for k in case["kinds"]]
    if opts.get("eliminable_variable_expression"):
        labels.append("opt:eliminable")
    if opts.get("iterative_simplification"):
        labels.append("opt:iterative")
    if removed > 0:
        labels.append("eliminated")
    if info_warned:
        labels.append("informational_warning")
    if not regular0:
        labels.append("original_not_regular")
    if which == "C15":
        if not regular0:
            # the statement speaks of models whose equations determine their unknowns uniquely
            return dict(nontrivial=False, labels=labels)
        if bal1 != bal0:
            raise Violation("balance_changed", "unknowns-equations was %d, is %d after simplify%s" % (bal0, bal1, tail))
        return dict(nontrivial=removed > 0 or len(res) < n_elems_names(names0), labels=labels, sample={"text": text, "options": {k: v for k, v in opts.items() if v}})
    # ---- C14
    if warned:
        ctx.extra["reported_failure:warning"] += 1
        return dict(nontrivial=False, labels=labels + ["warning_reported"])
    tol = 1e-7
    scale = 1.0 + max([abs(x) for x in np.atleast_1d(res)] + [0.0])
    if res.size and (not np.all(np.isfinite(res)) or np.max(np.abs(res)) > tol * max(1.0, max_abs(case))):
        raise Violation("solution_lost:dae_residual", "simplified residual at the original solution: %r%s" % (res[:8], tail))
    if ires.size and (not np.all(np.isfinite(ires)) or np.max(np.abs(ires)) > tol * max(1.0, max_abs(case))):
        raise Violation("solution_lost:initial_residual", "simplified initial residual at the original solution: %r%s" % (ires[:8], tail))
    # recorded aliases hold in the original solution
    ar = model.alias_relation
    for canonical in ar.canonical_variables:
        for alias in ar.aliases(canonical):
            if alias == canonical:
                continue
            sign = -1.0 if alias.startswith("-") else 1.0
            nm = alias[1:] if alias.startswith("-") else alias
            try:
                va, vc = get(nm), get(canonical)
            except KeyError as e:
                raise Violation("alias_unknown_variable", "alias relation names %s%s" % (e, tail))
            if abs(float(va) - sign * float(vc)) > tol * max(1.0, abs(float(vc))):
                raise Violation("alias_sign_or_pair", "recorded %s = %s%s but solution has %r vs %r%s" % (nm, "-" if sign < 0 else "", canonical, va, vc, tail))
    # variables turned into constants carry their solution value
    for v in moved:
        nm = v.symbol.name()
        val = num_attr(v.value)
        if val is None:
            continue
        if not np.allclose(val.reshape(-1), np.atleast_1d(np.array(get(nm), dtype=float)).reshape(-1), rtol=tol, atol=tol):
            raise Violation("constant_value", "%s became a constant with value %r, solution %r%s" % (nm, val, get(nm), tail))
    # no solutions added: full column rank w.r.t. remaining unknowns
    nunk = n_elems(model.der_states) + n_elems(model.alg_states)
    if nunk and f.n_out():
        ins = [ca.MX.sym("i%d" % i, *f.size_in(i)) for i in range(f.n_in())]
        out = f.call(ins)[0]
        J = ca.Function("J", ins, [ca.jacobian(out, ca.vertcat(ins[2], ins[3]))])
        Jv = np.array(J.call(args)[0], dtype=float)
        rank = np.linalg.matrix_rank(Jv, tol=1e-9) if Jv.size else 0
        if rank < nunk and regular0:
            raise Violation("solutions_added:rank_deficient", "Jacobian rank %d < %d remaining unknowns%s" % (rank, nunk, tail))
    return dict(nontrivial=n_on >= 2 and removed > 0, labels=labels, sample={"text": text, "options": {k: v for k, v in opts.items() if v}})


def n_elems_names(names0):
    return len(names0["states"]) + len(names0["alg_states"])


def max_abs(case):
    vals = []
    for v in list(case["sol"].values()) + list(case["der"].values()):
        vals += [abs(x) for x in (v if isinstance(v, list) else [v])]
    return max(vals + [1.0])


def check_case(ctx, case):
    return run_case(ctx, case, "C14")


def shard(ctx):
    drive(ctx, case_strategy(), check_case, ctx.share(1000, 20000))


def replay(ctx, case):
    check_case(ctx, case)


MANIFEST = dict(
    text="Models with a solution known by construction are simplified under random option sets; the "
    "original solution must still satisfy the simplified residual and initial residual, every recorded "
    "alias (with sign) and every variable turned into a constant must agree with it, and the "
    "simplified system must not have become rank deficient in its remaining unknowns.  Cases where "
    "pymoca reports failure (exception/warning) pass, and their fraction is reported.",
    note="Local (rank) rather than global check that no solutions are added; trusts the forward-substitution reference solution and CasADi's numeric evaluation.",
    technique="property-based testing with solution-by-construction oracle (metamorphic: simplify must preserve a known solution)",
)
