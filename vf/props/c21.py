"""C21 - An interrupted or in-progress cache write never breaks later loads.

Fault enumeration over the model cache file `<Name>.pymoca_cache`:

* truncate    the complete cache file B of a model is cut at byte offset n
              (every n for the exhaustively swept models, drawn n for the
              others, plus the pickle frame / payload boundaries of all);
* write_crash `api.open` is wrapped so that the k-th `write()` on the cache
              file raises OSError (k = 1 is "open succeeded, zero writes"),
              optionally after a short write of half the chunk;
* interleave  a writer `transfer_model` is paused after pa of its writes
              (harness-owned: the wrapped file blocks on an event), a reader
              `transfer_model` on the same folder runs on the partial file -
              to completion, or paused itself after pb writes of its own
              re-save while the first writer finishes;
* codegen     shared libraries present and the cache file missing, truncated
              or its write crashed.

Oracle (never through the cache): the next `transfer_model` returns, without
raising, a model equal to a compile of the same source in another folder with
caching off; one more call is then a cache hit (`CachedModel`) that is equal
too.
"""
import builtins
import errno
import os
import pickletools
import queue
import re
import shutil
import tempfile
import threading
import time
from pathlib import Path

from hypothesis import strategies as st

from vf import canon
from vf.core import Discard, Violation, as_violation, case_hash, drive, exc_kind, run_one

ID = "C21"
LEVEL = "fault_enumeration"
SHARDS = {"quick": 16, "thorough": 16}
SOFT_BUDGET_S = {"quick": 80, "thorough": 1500}

RULE = (
    "case = (pool model, mode cache|codegen, fault kind, crash point).  truncate: the complete "
    "cache file is cut at offset n and given an mtime newer than the source so that the reader "
    "really unpickles it; quick sweeps EVERY offset 0..len of 2 pool models (offsets n with "
    "n % shards == shard) and ~1100 Hypothesis-drawn offsets of the other 6, thorough sweeps "
    "every offset of the 7 small models and every 8th offset of Big (160 kB cache, 4 write "
    "calls); the pickle frame headers/ends, the write-call boundaries, the start/end of every payload "
    "> 256 bytes (the serialised CasADi functions), the first 16 and last 4 offsets of every "
    "model are always included.  write_crash: every write() call k of pickle.dump raises "
    "(k=1: file opened, nothing written), with and without a short write of half the chunk, in a clean folder and as a "
    "re-write over the complete cache of an older version of the source.  "
    "interleave: every (pa, pb): writer paused after pa = 0..W of its W writes, reader runs to "
    "completion (pb=-1) or is itself paused after pb = 0..W writes of its re-save while the "
    "first writer finishes.  codegen (4 cases per quick run, spread over kind x model x "
    "position and rotating with the seed; 16 + 48 drawn in thorough): libraries present, cache missing / cut at a permille "
    "of its length / write crashed / writer paused before its first write.  After each fault: next call must not raise and must equal the "
    "uncached compile, the call after that must be a CachedModel and equal.  Equality = "
    "vf.canon.compare_models (names, order, types, outputs, alias relation, attributes at "
    "drawn parameter values, four functions at 3 drawn points) for the always-included "
    "offsets, every offset divisible by 25, and all write_crash/interleave/codegen cases; for "
    "the remaining swept offsets: no exception + isinstance + vf.canon.model_struct equality "
    "(the recompile path taken does not depend on n).  Non-trivial = the reader is faced with "
    "a non-empty strict prefix of the cache file (0 < n < len; write_crash / interleave: size "
    "of the file left behind strictly between 0 and len); distinct = distinct case JSON."
)
ASSUMPTIONS = [
    "reference = transfer_model of the same source text in a separate folder with caching "
    "and codegen off (expand_mx=True for cache mode, as transfer_model forces it): the "
    "generator itself is trusted here (that is C07-C13), only the cache path is under test",
    "a crash leaves a prefix of the bytes a complete write would have produced (the OS does "
    "not reorder or zero-fill): files with holes or bit flips are outside the statement",
    "'instead of raising' is read strictly: any exception from the next transfer_model is a "
    "failure, also when a later call would succeed",
    "'recompiling if needed' is taken to include that the recompile repairs the file: the "
    "call after the next one must be a cache hit (otherwise every later call would pay the "
    "compile again and mutants that never rewrite the file would be invisible)",
    "the transfer_model that is crashed by the injected OSError may raise anything; only the "
    "calls after it are judged",
    "thread schedules are harness-owned and sequential (exactly one of writer/reader runs at "
    "any time), so every interleaving at write-call granularity is deterministic",
    "both interleaved calls use the same compiler options; two writers with DIFFERENT options can "
    "leave a byte-wise mix of two pickles (probe on Big: AttributeError / UnicodeDecodeError from "
    "pickle.load, or a loadable mix): a write-write race, not 'a file a writer has not finished'",
    "each worker caps its address space at 4 GiB so that unpickling garbage (mutants) ends in "
    "MemoryError instead of the OOM killer",
    "attributes that depend on constants are not in the pool (save_model cannot build the "
    "metadata function for them at all: different property)",
]

INJECTED = "C21 injected write failure"
WAIT_S = 300.0

# --------------------------------------------------------------------------
# model pool
# --------------------------------------------------------------------------
BIG_N = 100
BIG_STRIDE = 8  # thorough sweep of Big's 160 kB cache: every 8th offset (a recompile of Big costs ~0.1 s)

POOL = {
    "Decay": (
        """model Decay
  parameter Real p = 2.0;
  Real x(start=1.0, max=2*p);
  Real y;
equation
  der(x) = -p*x;
  y = x + p;
end Decay;
""",
        {},
    ),
    "Single": (
        """model Single
  Real x(start=1.0);
equation
  der(x) = -x;
end Single;
""",
        {},
    ),
    "ArrPar": (
        """model ArrPar
  parameter Real a[3] = {1.0, 2.0, 3.0};
  parameter Real q = 3.0;
  Real x(start=0.5, min=-q, max=a[2]*q);
  Real s;
equation
  der(x) = a[1]*x + q;
  s = a[1] + a[2] + a[3] + x;
end ArrPar;
""",
        {},
    ),
    "Alias": (
        """model Alias
  parameter Real p = 1.5;
  Real x(start=1.0);
  Real y;
  Real z;
equation
  der(x) = -p*x;
  y = x;
  z = -y;
end Alias;
""",
        {"detect_aliases": True},
    ),
    "Delay": (
        """model Delay
  parameter Real p = 0.5;
  input Real u(fixed=true);
  Real x(start=0.0);
  Real d;
equation
  der(x) = u - x;
  d = delay(x, p);
end Delay;
""",
        {},
    ),
    "Str": (
        """model Str
  parameter String mode = "fast";
  parameter Real k = 2.0;
  constant Real c = 3.0;
  Real x(start=1.0, nominal=2*k);
  output Real w;
equation
  der(x) = -k*x;
  w = c*x;
end Str;
""",
        {},
    ),
    "Mixed": (
        """model Mixed
  parameter Real p1 = 1.0;
  parameter Real p2 = 2*p1;
  input Real u;
  output Real o;
  Real x1(start=p1, min=-p2);
  Real x2(start=0.0, max=p1+p2, nominal=4.0);
  Real a;
equation
  der(x1) = x2 - p1*x1;
  der(x2) = u - x2;
  a = x1*x2;
  o = a + p2;
end Mixed;
""",
        {},
    ),
    "Big": (
        """model Big
  parameter Real a[%d] = fill(1.0, %d);
  Real x[%d];
  Real y;
equation
  for i in 1:%d loop
    der(x[i]) = -a[i]*x[i] + sin(x[i])*y;
  end for;
  y = sum(x);
end Big;
"""
        % (BIG_N, BIG_N, BIG_N, BIG_N),
        {},
    ),
}
NAMES = list(POOL)
EXHAUSTIVE_QUICK = ["Decay", "Single"]
CODEGEN_MODELS = ["Decay", "Delay", "Alias"]


def options(name, mode):
    o = dict(POOL[name][1])
    o["cache" if mode == "cache" else "codegen"] = True
    return o


def ref_options(name, mode):
    o = dict(POOL[name][1])
    if mode == "cache":
        o["expand_mx"] = True  # transfer_model forces it for cache=True
    return o


# --------------------------------------------------------------------------
# fault injection: the file object save_model writes the cache through
# --------------------------------------------------------------------------
class HarnessTimeout(Exception):
    pass


class Plan:
    """What happens to the writes of one thread's cache file."""

    def __init__(self, crash_at=None, partial=False, pause_at=None, chan=None):
        self.crash_at = crash_at  # 1-based index of the write() that raises
        self.partial = partial  # short write of half the chunk before raising
        self.pause_at = pause_at  # pause when this many writes are complete
        self.chan = chan  # queue to tell the scheduler "paused"
        self.resume = threading.Event()
        self.writes = []  # sizes of the completed writes
        self.paused = False
        self.crashed = False
        self.opened = 0

    def maybe_pause(self, at_close=False):
        if self.pause_at is None or self.paused:
            return
        if len(self.writes) == self.pause_at or at_close:
            self.paused = True
            self.chan.put("paused")
            if not self.resume.wait(WAIT_S):
                raise HarnessTimeout("paused writer was never resumed")


class FaultFile:
    def __init__(self, real, plan):
        self._real = real
        self._plan = plan

    def write(self, data):
        p = self._plan
        p.maybe_pause()
        if p.crash_at is not None and len(p.writes) + 1 == p.crash_at:
            if p.partial:
                self._real.write(bytes(data)[: len(data) // 2])
                self._real.flush()
            p.crashed = True
            raise OSError(errno.ENOSPC, INJECTED)
        n = self._real.write(data)
        self._real.flush()  # make the write boundary visible to a reader
        p.writes.append(len(data))
        return n

    def __enter__(self):
        return self

    def __exit__(self, *exc):
        try:
            if exc[0] is None:
                self._plan.maybe_pause(at_close=True)
        finally:
            self._real.close()
        return False

    def __getattr__(self, k):
        return getattr(self._real, k)


class patched_open:
    """`api.open = wrapper` for the duration of a block.  plans: thread ident
    (or None = any thread) -> Plan."""

    def __init__(self, api, plans):
        self.api = api
        self.plans = plans

    def __enter__(self):
        plans = self.plans

        def wrapper(path, mode="r", *a, **k):
            f = builtins.open(path, mode, *a, **k)
            # (also a temporary sibling such as X.pymoca_cache.tmp that is renamed into place)
            if ".pymoca_cache" in os.path.basename(str(path)) and any(c in mode for c in "wax+"):
                plan = plans.get(threading.get_ident(), plans.get(None))
                if plan is not None:
                    plan.opened += 1
                    return FaultFile(f, plan)
            return f

        self.had = "open" in vars(self.api)
        self.old = vars(self.api).get("open")
        self.api.open = wrapper
        return self

    def __exit__(self, *exc):
        if self.had:
            self.api.open = self.old
        else:
            del self.api.open
        return False


# --------------------------------------------------------------------------
# per-process pool state
# --------------------------------------------------------------------------
def limit_address_space(cap=4 << 30):
    """Unpickling garbage can ask for a buffer of any size (a length field read from the wrong
    place): seen with the append-mode mutant, where one worker grew to 21 GB, was OOM-killed and
    left the runner's Pool.map waiting for ever.  With a cap (a worker peaks at ~1 GB virtual)
    such a load raises MemoryError instead, which the oracle reports like any other exception."""
    try:
        import resource

        soft, hard = resource.getrlimit(resource.RLIMIT_AS)
        if soft == resource.RLIM_INFINITY or soft > cap:
            resource.setrlimit(resource.RLIMIT_AS, (cap, hard))
    except (ImportError, ValueError, OSError):
        pass


class World:
    def __init__(self, ctx):
        import pymoca.backends.casadi.api as api
        from vf import env

        env.pin_version()  # after importing api: api.__version__ is an import-time copy
        limit_address_space()
        self.api = api
        self.ctx = ctx
        self.t0 = int(time.time()) - 7200  # mtime given to sources (ordering only, no oracle)
        self.refs = {}
        self.info = {}
        self.sweep_dirs = {}

    # ---- folders -------------------------------------------------------
    def folder(self, name):
        d = Path(tempfile.mkdtemp(prefix=name + "_", dir=str(self.ctx.scratch)))
        mo = d / (name + ".mo")
        mo.write_text(POOL[name][0])
        os.utime(mo, (self.t0, self.t0))
        return d

    def sweep_folder(self, name):
        """One folder per model for the truncation cases: each case starts by
        overwriting the cache file, the source never changes (unlink/rmdir
        cost more than the case itself on some file systems)."""
        d = self.sweep_dirs.get(name)
        if d is None or not (d / (name + ".mo")).exists():
            d = self.sweep_dirs[name] = self.folder(name)
        return d

    def cache_file(self, d, name):
        return d / (name + ".pymoca_cache")

    def put_cache(self, d, name, data):
        """Leave `data` as the cache file, not older than the source, so that
        the mtime check passes and the reader really reads these bytes."""
        cf = self.cache_file(d, name)
        with builtins.open(cf, "wb") as f:
            f.write(data)
        os.utime(cf, (self.t0 + 60, self.t0 + 60))

    def drop(self, d):
        shutil.rmtree(d, ignore_errors=True)

    # ---- reference and complete cache bytes ------------------------------
    def ref(self, name, mode):
        key = (name, mode)
        if key not in self.refs:
            d = self.folder(name)
            self.refs[key] = self.api.transfer_model(str(d), name, ref_options(name, mode))
            if isinstance(self.refs[key], self.api.CachedModel) or self.cache_file(d, name).exists():
                raise RuntimeError("C21 harness: reference compile went through the cache")
            self.drop(d)
        return self.refs[key]

    def prepare(self, name):
        """Complete cache bytes, number of write calls, interesting offsets
        (cache mode; codegen caches hold folder-specific paths)."""
        if name in self.info:
            return self.info[name]
        ref = self.ref(name, "cache")
        d = self.folder(name)
        plan = Plan()
        with patched_open(self.api, {None: plan}):
            m0 = self.api.transfer_model(str(d), name, options(name, "cache"))
        data = self.cache_file(d, name).read_bytes()
        if isinstance(m0, self.api.CachedModel) or plan.opened != 1 or sum(plan.writes) != len(data):
            raise RuntimeError("C21 harness: clean-folder run of %s did not write the cache once" % name)
        # sanity, not an oracle of this property: no fault injected yet
        canon.compare_models(ref, m0, 1, "%s: clean compile vs reference" % name)
        m1 = self.api.transfer_model(str(d), name, options(name, "cache"))
        if not isinstance(m1, self.api.CachedModel):
            raise RuntimeError("C21 harness: complete cache of %s is not hit" % name)
        canon.compare_models(ref, m1, 1, "%s: clean cache hit vs reference" % name)
        self.drop(d)
        # is the written file a function of the source only?  (reported by shard 0)
        same = None
        if self.ctx.shard == 0:
            d2 = self.folder(name)
            self.api.transfer_model(str(d2), name, options(name, "cache"))
            same = self.cache_file(d2, name).read_bytes() == data
            self.drop(d2)
        info = dict(bytes=data, writes=list(plan.writes), deterministic=same, interesting=interesting_offsets(data, plan.writes))
        self.info[name] = info
        return info


def interesting_offsets(data, writes):
    n = len(data)
    out = set(range(0, min(17, n + 1))) | {n - k for k in range(0, 5) if n - k >= 0}
    for op, arg, pos in pickletools.genops(data):
        if op.name == "FRAME":
            out.update((pos - 1, pos, pos + 1, pos + 9, pos + 10, pos + 9 + arg - 1, pos + 9 + arg, pos + 9 + arg + 1))
        elif isinstance(arg, (bytes, str)) and len(arg) > 256:
            ln = len(arg) if isinstance(arg, bytes) else len(arg.encode("utf-8", "surrogatepass"))
            hdr = 1 + {"BINUNICODE": 4, "BINBYTES": 4, "BINUNICODE8": 8, "BINBYTES8": 8, "BYTEARRAY8": 8}.get(op.name, 4)
            out.update((pos, pos + 1, pos + hdr, pos + hdr + 1, pos + hdr + ln - 1, pos + hdr + ln))
    acc = 0
    for w in writes:
        acc += w
        out.update((acc - 1, acc, acc + 1))
    return sorted(x for x in out if 0 <= x <= n)


_WORLD = {}


def world(ctx):
    w = _WORLD.get(id(ctx))
    if w is None:
        _WORLD.clear()
        w = _WORLD[id(ctx)] = World(ctx)
    return w


# --------------------------------------------------------------------------
# oracle
# --------------------------------------------------------------------------
def call(w, d, name, opts, where, what=""):
    """transfer_model after the fault: any exception is a failure."""
    w.ctx.extra["transfer_model_calls_after_fault"] += 1
    try:
        return w.api.transfer_model(str(d), name, dict(opts))
    except HarnessTimeout:
        raise
    except Exception as e:  # noqa: BLE001 - 'instead of raising'
        raise Violation(exc_kind(e, where), "%s: transfer_model raised %s: %s" % (what, type(e).__name__, str(e)[:300]))


def same_model(w, ref, got, seed, where, what, full):
    from pymoca.backends.casadi.model import Model

    if not isinstance(got, Model):
        raise Violation("%s:not_a_model" % where, "%s: returned %r" % (what, type(got)))
    try:
        if full:
            canon.compare_models(ref, got, seed, what)
        else:
            sa, sb = canon.model_struct(ref), canon.model_struct(got)
            for k in sa:
                if sa[k] != sb[k]:
                    raise Violation("model_struct:%s" % k, "%s: %s differs: %r vs %r" % (what, k, sa[k], sb[k]))
    except Violation as v:
        raise Violation("%s:%s" % (where, v.kind), v.msg)
    except Discard:
        raise
    except Exception as e:  # noqa: BLE001 - e.g. a function of a half-built model fails when evaluated
        raise as_violation(e, where + ".compare")


def judge_after_fault(w, d, name, mode, fault, seed, full, what):
    """The statement's consequent: next call correct, then a valid cache hit."""
    ref = w.ref(name, mode)
    opts = options(name, mode)
    m1 = call(w, d, name, opts, fault + ".next", what)
    same_model(w, ref, m1, seed, fault + ".next", what + " (next call)", full)
    m2 = call(w, d, name, opts, fault + ".followup", what + ", second call after the fault")
    if not isinstance(m2, w.api.CachedModel):
        raise Violation(
            "%s.followup:not_a_cache_hit" % fault,
            "%s: the call after the repairing call returned %s, the cache file was not repaired" % (what, type(m2).__name__),
        )
    same_model(w, ref, m2, seed + 1, fault + ".followup", what + " (cache hit after repair)", full)
    return m1


def case_seed(case):
    return int(case_hash(case), 16) % (2**31 - 7)


# ---- truncate ------------------------------------------------------------
def check_truncate(w, case):
    name, mode = case["model"], case["mode"]
    if mode == "codegen":
        return check_codegen(w, case)
    info = w.prepare(name)
    data = info["bytes"]
    n = min(int(case["n"]), len(data))
    full = bool(case.get("full", True)) or n in info["interesting"] or n % 25 == 0
    d = w.sweep_folder(name)
    w.put_cache(d, name, data[:n])
    m1 = judge_after_fault(w, d, name, mode, "truncate", case_seed(case), full, "%s cache cut at %d/%d" % (name, n, len(data)))
    if n < len(data) and isinstance(m1, w.api.CachedModel):
        w.ctx.extra["strict_prefix_loaded_as_cache_hit"] += 1
    if n == len(data) and not isinstance(m1, w.api.CachedModel):
        w.ctx.extra["complete_file_not_hit"] += 1
    w.ctx.extra["truncate_full_compare" if full else "truncate_struct_compare"] += 1
    nt = 0 < n < len(data)
    return dict(nontrivial=nt, labels=["truncate", "truncate:" + name, "compare:full" if full else "compare:struct"],
                sample=dict(case, cache_len=len(data)))


# ---- write crash ------------------------------------------------------------
def check_write_crash(w, case):
    name, mode = case["model"], case["mode"]
    k, partial = int(case["k"]), bool(case.get("partial", False))
    d = w.folder(name)
    prior = False
    try:
        if case.get("prior"):
            # the folder already holds a COMPLETE cache of an older version of the source (one literal differs);
            # the source is then rewritten with a later mtime, so that the crashing call is a re-write over that file
            mo = d / (name + ".mo")
            old_text = re.sub(r"(\d+\.\d+)", lambda mt: repr(float(mt.group(1)) + 1.0), POOL[name][0], count=1)
            if old_text != POOL[name][0]:
                mo.write_text(old_text)
                os.utime(mo, (w.t0, w.t0))
                m0 = w.api.transfer_model(str(d), name, options(name, mode))
                cf0 = w.cache_file(d, name)
                if isinstance(m0, w.api.CachedModel) or not cf0.exists():
                    raise RuntimeError("C21 harness: could not prepare the older cache of %s" % name)
                os.utime(cf0, (w.t0 + 60, w.t0 + 60))
                mo.write_text(POOL[name][0])
                os.utime(mo, (w.t0 + 120, w.t0 + 120))
                prior = True
        plan = Plan(crash_at=k, partial=partial)
        outcome = "returned"
        with patched_open(w.api, {None: plan}):
            try:
                w.api.transfer_model(str(d), name, options(name, mode))
            except OSError as e:
                if INJECTED not in str(e):
                    raise as_violation(e, "write_crash.clean_folder")
                outcome = "raised_injected"
            except Exception as e:  # noqa: BLE001 - the crashed call may raise
                outcome = "raised_" + type(e).__name__
        w.ctx.extra["crashed_call_" + outcome] += 1
        cf = w.cache_file(d, name)
        left = cf.stat().st_size if cf.exists() else -1
        what = "%s %s: write %d raised%s, %d bytes left behind%s" % (
            name, mode, k, " after a short write" if partial else "", left,
            " (re-write over the complete cache of an older source version)" if prior else "")
        judge_after_fault(w, d, name, mode, "write_crash", case_seed(case), True, what)
    finally:
        w.drop(d)
    total = sum(plan.writes)
    nt = plan.crashed and left > 0
    labels = ["write_crash", "write_crash:" + mode]
    if prior:
        labels.append("write_crash:over_older_complete_cache")
    if not plan.crashed:
        labels.append("write_crash:k_beyond_last_write")
    elif left == 0:
        labels.append("write_crash:open_then_zero_bytes")
    elif k > 1:
        labels.append("write_crash:between_writes")
    return dict(nontrivial=nt, labels=labels, sample=dict(case, bytes_left=left, writes_done=list(plan.writes), total=total))


# ---- interleave --------------------------------------------------------------
class Worker(threading.Thread):
    def __init__(self, w, d, name, opts, plan, chan, plans):
        super().__init__(daemon=True)
        self.w, self.d, self.name_, self.opts, self.plan, self.chan = w, d, name, opts, plan, chan
        self.plans = plans
        self.result = None
        self.exc = None

    def run(self):
        try:
            self.plans[threading.get_ident()] = self.plan
            self.result = self.w.api.transfer_model(str(self.d), self.name_, dict(self.opts))
        except BaseException as e:  # noqa: BLE001 - judged by the scheduler
            self.exc = e
        finally:
            self.chan.put("done")

    def until_paused_or_done(self):
        try:
            return self.chan.get(timeout=WAIT_S)
        except queue.Empty:
            raise HarnessTimeout("worker neither paused nor finished")


def check_interleave(w, case):
    name, mode = case["model"], case["mode"]
    pa, pb = int(case["pa"]), int(case["pb"])
    info = w.prepare(name) if mode == "cache" else None
    ref = w.ref(name, mode)
    opts = options(name, mode)
    d = w.folder(name)
    cf = w.cache_file(d, name)
    seed = case_seed(case)
    plans = {}
    workers = []
    try:
        with patched_open(w.api, plans):
            qa, qb = queue.Queue(), queue.Queue()
            plan_a = Plan(pause_at=pa, chan=qa)
            plan_b = Plan(pause_at=pb if pb >= 0 else None, chan=qb)
            a = Worker(w, d, name, opts, plan_a, qa, plans)
            b = Worker(w, d, name, opts, plan_b, qb, plans)
            workers = [a, b]
            try:
                a.start()
                sa = a.until_paused_or_done()
                seen = cf.stat().st_size if cf.exists() else -1
                b.start()
                sb = b.until_paused_or_done()
                plan_a.resume.set()
                if sa == "paused":
                    a.until_paused_or_done()
                plan_b.resume.set()
                if sb == "paused":
                    b.until_paused_or_done()
            finally:
                plan_a.resume.set()
                plan_b.resume.set()
                for t in workers:
                    if t.ident is not None:
                        t.join(WAIT_S)
                if any(t.is_alive() for t in workers):
                    raise RuntimeError("C21 harness: worker thread did not finish")
        for t in workers:
            if isinstance(t.exc, HarnessTimeout):
                raise t.exc
        what = "%s %s: writer paused after %d write(s) (%d bytes visible), reader %s" % (
            name, mode, pa, seen, "ran to completion" if pb < 0 else "paused after %d write(s) of its own" % pb)
        for who, t in (("reader", b), ("writer", a)):
            if t.exc is not None:
                raise Violation(exc_kind(t.exc, "interleave." + who), "%s: %s: %s" % (what, type(t.exc).__name__, str(t.exc)[:300]))
            same_model(w, ref, t.result, seed, "interleave." + who, what + " (%s's model)" % who, True)
        w.ctx.extra["transfer_model_calls_after_fault"] += 1  # the reader's
        judge_after_fault(w, d, name, mode, "interleave", seed + 2, True, what)
    finally:
        w.drop(d)
    total = len(info["bytes"]) if info else None
    nt = seen > 0 and (total is None or seen < total)
    labels = ["interleave", "interleave:reader_%s" % ("completes" if pb < 0 else "paused")]
    if plan_b.opened:
        labels.append("interleave:reader_rewrote_cache")
    if plan_a.opened != 1 or sa != "paused":
        labels.append("interleave:writer_not_paused_in_write")
    if isinstance(b.result, w.api.CachedModel):
        labels.append("interleave:reader_hit_cache")
    return dict(nontrivial=nt, labels=labels, sample=dict(case, bytes_visible_to_reader=seen, cache_len=total))


# ---- codegen: libraries there, cache file not (completely) ----------------------
def check_codegen(w, case):
    name, fault = case["model"], case["fault"]
    if fault == "write_crash":
        return check_write_crash(w, case)
    d = w.folder(name)
    try:
        opts = options(name, "codegen")
        m0 = w.api.transfer_model(str(d), name, dict(opts))
        cf = w.cache_file(d, name)
        libs = sorted(p.name for p in d.iterdir() if p.suffix in (".so", ".dll", ".dylib"))
        if isinstance(m0, w.api.CachedModel) or not cf.exists() or len(libs) != 4:
            raise RuntimeError("C21 harness: clean codegen run left %r" % sorted(p.name for p in d.iterdir()))
        data = cf.read_bytes()
        if fault == "missing":
            cf.unlink()
            n = -1
            what = "%s codegen: 4 libraries present, cache file missing" % name
        else:
            n = min(len(data) - 1, len(data) * int(case["permille"]) // 1000)
            w.put_cache(d, name, data[:n])
            what = "%s codegen: 4 libraries present, cache cut at %d/%d" % (name, n, len(data))
        judge_after_fault(w, d, name, "codegen", "codegen_" + fault, case_seed(case), True, what)
    finally:
        w.drop(d)
    return dict(nontrivial=(fault == "truncate" and n > 0), labels=["codegen", "codegen:" + fault], sample=dict(case, n=n, cache_len=len(data)))


def check_case(ctx, case):
    w = world(ctx)
    fault = case["fault"]
    if case["mode"] == "codegen" and fault in ("truncate", "missing"):
        return check_codegen(w, case)
    if fault == "truncate":
        return check_truncate(w, case)
    if fault == "write_crash":
        return check_write_crash(w, case)
    if fault == "interleave":
        return check_interleave(w, case)
    raise ValueError("unknown fault kind %r" % (fault,))


# --------------------------------------------------------------------------
# search
# --------------------------------------------------------------------------
def run_list(ctx, cases):
    for i, case in enumerate(cases):
        if ctx.over_budget():
            ctx.out_of_budget += len(cases) - i - 1
            return False
        run_one(ctx, check_case, case)
    return True


def owners(ctx, name):
    """Shards that run the per-model enumerations of `name` (each shard then only has to
    compile the models it owns, plus the swept ones)."""
    j = NAMES.index(name) % min(ctx.nshards, len(NAMES))
    return [s for s in range(ctx.nshards) if s % len(NAMES) == j]


def mine(ctx, name, seq, salt=0):
    own = owners(ctx, name)
    if ctx.shard not in own:
        return []
    rank = own.index(ctx.shard)
    return [c for i, c in enumerate(seq) if (i + salt) % len(own) == rank]


def shard(ctx):
    w = world(ctx)
    swept = list(EXHAUSTIVE_QUICK) if ctx.tier == "quick" else list(NAMES)
    owned = [name for name in NAMES if ctx.shard in owners(ctx, name)]
    infos = {name: w.prepare(name) for name in NAMES if name in owned or name in swept}
    for name in owned:
        if owners(ctx, name)[0] == ctx.shard:
            ctx.extra["cache_len:" + name] = len(infos[name]["bytes"])
            ctx.extra["write_calls:" + name] = len(infos[name]["writes"])
            ctx.extra["cache_bytes_reproducible:" + name] = int(bool(infos[name]["deterministic"]))

    for name in owned:
        nw = len(infos[name]["writes"])
        # 0. frame / payload / write boundaries
        special = [{"model": name, "mode": "cache", "fault": "truncate", "n": n, "full": True} for n in infos[name]["interesting"]]
        run_list(ctx, mine(ctx, name, special, salt=ctx.seed))
        # 1. every write() call crashes (with/without a short write); nw + 1: control, nothing crashes
        crash = [{"model": name, "mode": "cache", "fault": "write_crash", "k": k, "partial": partial, "prior": prior}
                 for k in range(1, nw + 2) for partial in (False, True) for prior in (False, True) if not (k == nw + 1 and partial)]
        run_list(ctx, mine(ctx, name, crash, salt=ctx.seed))
        # 2. every reader/writer schedule at write-call granularity
        sched = [{"model": name, "mode": "cache", "fault": "interleave", "pa": pa, "pb": pb}
                 for pa in range(0, nw + 1) for pb in range(-1, nw + 1)]
        run_list(ctx, mine(ctx, name, sched, salt=ctx.seed))

    # 3. codegen (gcc: 1-3 s CPU per compile, two compiles per case): one case on every fourth
    #    shard in quick, on every shard in thorough, spread deterministically over fault kind x
    #    model x cut position (a single Hypothesis draw per shard would be the minimal example
    #    in all of them); thorough adds drawn cases at the end
    kinds = ["truncate", "missing", "write_crash", "interleave", "truncate"]
    every = 4 if ctx.tier == "quick" else 1
    if ctx.shard % every == ctx.seed % every and not ctx.over_budget():
        i = ctx.shard // every + ctx.seed
        case = {"model": CODEGEN_MODELS[(i // len(kinds)) % len(CODEGEN_MODELS)], "mode": "codegen", "fault": kinds[i % len(kinds)]}
        if case["fault"] == "truncate":
            case["permille"] = (ctx.shard * 1000 // ctx.nshards + 37 * ctx.seed) % 1000
        elif case["fault"] == "write_crash":
            case.update(k=1, partial=bool((i // len(kinds)) % 2))
        elif case["fault"] == "interleave":
            case.update(pa=0, pb=-1)
        run_one(ctx, check_case, case)
    # 4. every byte offset
    for name in swept:
        total = len(infos[name]["bytes"])
        stride = BIG_STRIDE if name == "Big" else 1
        todo = [n for n in range(0, total + 1, stride) if (n // stride) % ctx.nshards == ctx.shard]
        for i, n in enumerate(todo):
            if ctx.over_budget():
                ctx.out_of_budget += len(todo) - i - 1
                break
            if run_one(ctx, check_case, {"model": name, "mode": "cache", "fault": "truncate", "n": n, "full": False}):
                ctx.extra["swept_offsets:" + name] += 1

    # 5. drawn offsets of the owned models that are not swept (~1200 per quick run)
    rest = [n for n in owned if n not in swept]
    if rest:
        strat = st.sampled_from(rest).flatmap(
            lambda nm: st.fixed_dictionaries({"model": st.just(nm), "mode": st.just("cache"), "fault": st.just("truncate"),
                                              "n": st.integers(0, len(infos[nm]["bytes"]) - 1), "full": st.just(False)}))
        drive(ctx, strat, check_case, 40 if rest == ["Big"] else 100)

    # 6. thorough: drawn codegen cases, last (under load one case can take a minute)
    if ctx.tier != "quick":
        codegen = st.one_of(
            st.fixed_dictionaries({"model": st.sampled_from(CODEGEN_MODELS), "mode": st.just("codegen"), "fault": st.just("truncate"),
                                   "permille": st.integers(0, 999)}),
            st.fixed_dictionaries({"model": st.sampled_from(CODEGEN_MODELS), "mode": st.just("codegen"), "fault": st.just("missing")}),
            st.fixed_dictionaries({"model": st.sampled_from(CODEGEN_MODELS), "mode": st.just("codegen"), "fault": st.just("write_crash"),
                                   "k": st.just(1), "partial": st.booleans()}),
        )
        drive(ctx, codegen, check_case, ctx.share(0, 48))


def replay(ctx, case):
    check_case(ctx, case)


def coverage_extra(tier, cov):
    c = cov.get("counters", {})
    swept = {}
    for k, v in c.items():
        if k.startswith("cache_len:"):
            name = k.split(":", 1)[1]
            swept[name] = "%d/%d" % (c.get("swept_offsets:" + name, 0), v + 1)
    full = sorted(n for n, s in swept.items() if s.split("/")[0] == s.split("/")[1])
    return {"offsets_swept_without_violation": swept, "exhaustive_offset_sweep_for": full,
            "exhaustive": bool(full) and not cov.get("cases_skipped_over_time_budget")}


MANIFEST = dict(
    text="Fault enumeration of the cache write: the cache file of small models (parameter-dependent "
    "attributes, array parameter, alias pair, delay, String parameter, a 100-element array model whose "
    "pickle is written in several chunks) is cut at every byte offset (2 models in quick; in thorough all "
    "7 small ones and every 8th offset of the large one; drawn offsets and all pickle frame/payload/"
    "write boundaries for the rest), every write() call "
    "of pickle.dump is made to fail through a wrapped api.open, and every writer/reader schedule at "
    "write-call granularity is played with harness-owned threads; codegen mode adds 'libraries there, "
    "cache file missing/cut'.  After every fault the next transfer_model must return a model equal to an "
    "uncached compile and the call after it must be a correct cache hit.  Exhaustive over byte offsets "
    "and write calls for the pool models, not over models.",
    note="Trusts the generator (reference = uncached compile of the same text), vf.canon.compare_models, "
    "that a crash leaves a prefix of the intended bytes, and pickle's framing being the only structure "
    "that matters for where a cut falls.",
    technique="fault injection / crash-point enumeration (truncation sweep, failing write calls, paused-writer schedules) with a differential oracle against an uncached compile",
)
