"""C18 - Vector expansion is a faithful renaming to scalars.

Generated models (own generator: 1-D / 2-D arrays, arrays of components holding
arrays, a scalar component holding an array of components, derivatives of
arrays, array-valued / `each` / broadcast / parameter-dependent attributes,
array outputs, delayed scalars and arrays, index-sensitive equations) are
compiled three times: m0 without `expand_vectors`, m1 with it, and m1x with
`expand_vectors` and `expand_mx` (expansion at the start of simplify).  A small reference flattener working on the
abstract model says which scalars every array variable must become and which
attribute element each of them must carry; the residual functions of m0 and m1
are compared at drawn points with m0's arrays filled *by expanded name*."""
import math

import numpy as np
from hypothesis import strategies as st

from vf import canon
from vf.core import Violation, drive, guarded

ID = "C18"
LEVEL = "exploration"
FEATURE = "nested_array_attr"
RULE = (
    "models with 1-D arrays (n in 2..3), 2-D arrays r x c (mostly non-square, incl. 1 x k / k x 1), "
    "an array of components `Sub s[k]` (Sub holds a scalar, a 1-D array w, a state q, a parameter array), "
    "a scalar component holding such an array (h.s[k].w[i]) and a 2-D array (h.G[i,j]), a 2-D array of "
    "scalar-only components (t[i,j].a), a scalar component holding an array (g.w[i]); Real/Integer/Boolean "
    "arrays, parameter/constant arrays with literal or fill() values, input and output arrays; attributes "
    "start/min/max/nominal/fixed as array literals, `each`, non-each scalars (broadcast), fill(), "
    "parameter-dependent expressions, and modifications written on the component declaration; 5-10 "
    "equations drawn from: whole-array / element derivatives (1-D, 2-D, nested), element, row, column, "
    "slice equations, for-loops with shifted index (1-D and over one index of a 2-D array), transpose, "
    "matrix*vector, elementwise, nested element references, delays of an element / in a for-loop / of a "
    "whole 1-D or 2-D array / of a nested element; 0-3 initial equations; each pair (m0, m1) is evaluated "
    "at 2 drawn points, for expand_vectors alone and together with expand_mx.  non-trivial = a non-square 2-D array or a nested component array occurs in an "
    "index-sensitive equation; distinct = distinct abstract model."
)
ASSUMPTIONS = [
    "3-D arrays (incl. a 2-D array inside an array of components) are left out: the unexpanded model cannot "
    "be generated for them (NotImplementedError), so there is nothing to compare with",
    "the renaming maps the expanded scalar with the concatenated 1-based index tuple (i) / (i,j) to element "
    "(i-1) / (i-1,j-1) of the unexpanded symbol; that m0 itself gives its equations this meaning is C11/C07's property",
    "the order of the expanded scalars inside a category is not part of the statement (m0's column-major "
    "argument order is not preserved by a row-major listing anyway): names are compared as sets per "
    "category, the order is reported as a label; outputs are compared group-wise in m0's output order",
    "delay states are internal names: `base[i,j]` over the 2-D shape of the delayed expression and, for "
    "column shapes, `base[i]` are both accepted as 1-based names (pymoca uses the first)",
    "attributes that the model text does not set are compared with m0's (default) attribute; attributes that "
    "it sets are compared with the element computed from the abstract model",
    "which category a variable is in is taken from m0 (classification is C10's property)",
]
SOFT_BUDGET_S = {"quick": 120, "thorough": 3000}

CATS = canon.CATEGORIES
ATTRS = canon.ATTRS


# --------------------------------------------------------------------------
# abstract model: attribute specs
# --------------------------------------------------------------------------
def fnum(v):
    if isinstance(v, bool):
        return "true" if v else "false"
    if isinstance(v, int):
        return str(v)
    return repr(float(v))


def lit_text(v):
    if isinstance(v, list):
        return "{" + ", ".join(lit_text(x) for x in v) + "}"
    return fnum(v)


def depth(v):
    d = 0
    while isinstance(v, list):
        v = v[0]
        d += 1
    return d


SYM_DIMS = {"pm": 0, "pv": 1, "PV": 2}


def spec_nd(spec):
    """Number of (trailing) dimensions the attribute value spans."""
    f = spec["form"]
    if f == "scalar":
        return 0
    if f == "lit":
        return depth(spec["v"])
    if f == "fill":
        return len(spec["dims"])
    return SYM_DIMS[spec["sym"]]


def spec_rhs(spec):
    f = spec["form"]
    if f == "scalar":
        return fnum(spec["v"])
    if f == "lit":
        return lit_text(spec["v"])
    if f == "fill":
        return "fill(%s, %s)" % (fnum(spec["v"]), ", ".join(str(d) for d in spec["dims"]))
    return "%s*%s" % (fnum(spec["k"]), spec["sym"])


def spec_elem(spec, idx, val):
    """Reference: the attribute element that belongs to the scalar with the
    0-based index tuple idx (attribute values that span fewer dimensions than
    the variable - declared inside the class of an array of components, or
    with `each` - apply to every component: trailing indices)."""
    nd = spec_nd(spec)
    tail = tuple(idx[len(idx) - nd:]) if nd else ()
    f = spec["form"]
    if f in ("scalar", "fill"):
        return float(spec["v"])
    if f == "lit":
        v = spec["v"]
        for i in tail:
            v = v[i]
        return float(v)
    name = spec["sym"] + ("[%s]" % ",".join(str(i + 1) for i in tail) if tail else "")
    return float(spec["k"]) * val[name]


# --------------------------------------------------------------------------
# printer
# --------------------------------------------------------------------------
def print_attr_list(attrs):
    parts = []
    for a, spec in attrs.items():
        if a == "value":
            continue
        parts.append(("each " if spec.get("each") else "") + "%s = %s" % (a, spec_rhs(spec)))
    return parts


def print_mods(mods):
    """Modifications on a component declaration, merged per (each, target)."""
    groups, order, values = {}, [], []
    for m in mods:
        spec = m["spec"]
        if m["attr"] == "value":
            values.append(("each " if spec.get("each") else "") + "%s = %s" % (m["target"], spec_rhs(spec)))
            continue
        outer_each = bool(spec.get("each")) and spec_nd(spec) > 0
        key = (outer_each, m["target"])
        if key not in groups:
            groups[key] = []
            order.append(key)
        inner_each = bool(spec.get("each")) and not outer_each
        groups[key].append(("each " if inner_each else "") + "%s = %s" % (m["attr"], spec_rhs(spec)))
    out = [("each " if k[0] else "") + "%s(%s)" % (k[1], ", ".join(groups[k])) for k in order]
    return out + values


def print_decl(d):
    t = (d.get("prefix", "") + " " if d.get("prefix") else "") + d["type"] + " " + d["name"]
    if d["dims"]:
        t += "[" + ",".join(str(x) for x in d["dims"]) + "]"
    mods = print_attr_list(d.get("attrs", {})) + print_mods(d.get("mods", []))
    if mods:
        t += "(" + ", ".join(mods) + ")"
    if "value" in d.get("attrs", {}):
        t += " = " + spec_rhs(d["attrs"]["value"])
    return "  " + t + ";\n"


def print_class(name, c):
    out = "model %s\n" % name + "".join(print_decl(d) for d in c["decls"])
    if c.get("ieqs"):
        out += "initial equation\n" + "".join("  " + q + "\n" for q in c["ieqs"])
    if c.get("eqs"):
        out += "equation\n" + "".join("  " + q + "\n" for q in c["eqs"])
    return out + "end %s;\n" % name


def print_case(case):
    out = "".join(print_class(k, case["classes"][k]) for k in case["classes"])
    return out + print_class("M", case["top"])


# --------------------------------------------------------------------------
# reference flattener (names, index tuples, attribute specs)
# --------------------------------------------------------------------------
def leaves(case):
    """flat name -> {"levels": [[name, dims]..], "type", "attrs": {attr: spec}}"""
    out = {}

    def walk(decls, levels, outer):
        for d in decls:
            lv = levels + [[d["name"], list(d["dims"])]]
            if d["type"] in case["classes"]:
                inner = {}
                for m in d.get("mods", []):
                    inner.setdefault(m["target"], {})[m["attr"]] = m["spec"]
                walk(case["classes"][d["type"]]["decls"], lv, inner)
            else:
                attrs = dict(d.get("attrs", {}))
                attrs.update(outer.get(d["name"], {}))
                out[".".join(x[0] for x in lv)] = {"levels": lv, "type": d["type"], "attrs": attrs}

    walk(case["top"]["decls"], [], {})
    return out


def leaf_dims(leaf):
    return [d for lv in leaf["levels"] for d in lv[1]]


def leaf_elems(leaf, der=False):
    """[(expanded name, 0-based index tuple)] in row-major order; the indices
    of every path element directly after that element, inside der(...)."""
    dims = leaf_dims(leaf)
    out = []
    for idx in np.ndindex(*dims) if dims else [()]:
        k, parts = 0, []
        for name, dm in leaf["levels"]:
            if dm:
                parts.append("%s[%s]" % (name, ",".join(str(i + 1) for i in idx[k:k + len(dm)])))
                k += len(dm)
            else:
                parts.append(name)
        nm = ".".join(parts)
        out.append(("der(%s)" % nm if der else nm, tuple(int(i) for i in idx)))
    return out


def has_feature(case):
    """Known-finding feature: an array-valued attribute that spans fewer
    dimensions than the flat variable (declared inside the class of an array of
    components, or given with `each`)."""
    for leaf in leaves(case).values():
        total = len(leaf_dims(leaf))
        for spec in leaf["attrs"].values():
            if 0 < spec_nd(spec) < total:
                return True
    return False


# --------------------------------------------------------------------------
# oracle
# --------------------------------------------------------------------------
def pos2(idx):
    if len(idx) == 0:
        return (0, 0)
    if len(idx) == 1:
        return (idx[0], 0)
    return (idx[0], idx[1])


def close(a, b, tol=1e-9):
    if math.isnan(a) or math.isnan(b):
        return math.isnan(a) and math.isnan(b)
    if math.isinf(a) or math.isinf(b):
        return a == b
    return abs(a - b) <= tol + tol * max(abs(a), abs(b))


def attr_num(attr, env, what):
    v = canon.attr_value(attr, env)
    return np.array(v, dtype=float)


def build_models(case, text):
    from pymoca import parser
    from pymoca.backends.casadi import generator

    models = []
    # one parse for both: generate() flattens a copy of the class (that a tree can be reused is C05's property)
    tree = guarded(parser.parse, text, bypass_cache=True, where="parse")
    if tree is None:
        raise Violation("valid_text_rejected", "parse returned None:\n" + text)
    for opts in ({"expand_vectors": False}, {"expand_vectors": True, "expand_mx": False}, {"expand_vectors": True, "expand_mx": True}):
        tag = ("expanded_mx" if opts["expand_mx"] else "expanded") if opts["expand_vectors"] else "unexpanded"
        try:
            m = guarded(generator.generate, tree, "M", dict(opts), where="generate_" + tag)
            guarded(m.simplify, dict(opts), where="simplify_" + tag)
        except Violation as v:
            v.msg += "\n" + text
            raise
        models.append(m)
    return models


def delay_elems(base, shape, names1):
    """Accepted 1-based names of the elements of a delay state."""
    r, c = shape
    two = [("%s[%d,%d]" % (base, i + 1, j + 1), (i, j)) for i in range(r) for j in range(c)]
    if {n for n, _ in two} <= names1:
        return two, "delay_names:[i,j]"
    if c == 1:
        one = [("%s[%d]" % (base, i + 1), (i, 0)) for i in range(r)]
        if {n for n, _ in one} <= names1:
            return one, "delay_names:[i]"
    return two, "delay_names:[i,j]"


def check_case(ctx, case):
    try:
        return _check_case(ctx, case)
    except Violation as v:
        if has_feature(case):
            v.kind += "+" + FEATURE
        raise


def _check_case(ctx, case):
    text = print_case(case)
    L = leaves(case)
    m0, m1, m1x = build_models(case, text)
    labels = set(case["feats"])
    # both places where simplify() runs the expansion: after the parameter handling (expand_mx off) and at
    # the start of the simplification, followed by the SX round trip (expand_mx on)
    check_pair(case, text, L, m0, m1, labels, "expand_vectors")
    check_pair(case, text, L, m0, m1x, labels, "expand_vectors+expand_mx")
    if has_feature(case):
        labels.add("feature:" + FEATURE)
    return dict(nontrivial=bool(case["nt"]), labels=sorted(labels), sample={"text": text})


def check_pair(case, text, L, m0, m1, labels, how):
    import casadi as ca

    text = "[%s]\n%s" % (how, text)

    # ---- (a) names ---------------------------------------------------
    groups = {}  # m0 variable name -> [(expanded name, idx)]
    owner = {}  # m0 variable name -> (leaf | None, is_der)
    delay0 = list(m0.delay_states)
    for cat in CATS:
        got = [v.symbol.name() for v in getattr(m1, cat)]
        got_set = set(got)
        if len(got_set) != len(got):
            raise Violation("expanded_names_duplicate:" + cat, "%r\n%s" % (got, text))
        exp_order = []
        for v in getattr(m0, cat):
            nm = v.symbol.name()
            shape = (int(v.symbol.size1()), int(v.symbol.size2()))
            if nm in delay0:
                elems, lb = delay_elems(nm, shape, got_set)
                labels.add(lb)
                owner[nm] = (None, False)
            else:
                isder = nm.startswith("der(") and nm.endswith(")")
                base = nm[4:-1] if isder else nm
                if base not in L:
                    raise Violation("unexpanded_model_variable_unknown", "%s in %s\n%s" % (nm, cat, text))
                elems = leaf_elems(L[base], isder)
                owner[nm] = (L[base], isder)
                nd = len(leaf_dims(L[base]))
                if nd > 2 or any(pos2(i)[0] >= shape[0] or pos2(i)[1] >= shape[1] for _, i in elems) or len(elems) != shape[0] * shape[1]:
                    raise Violation("unexpanded_symbol_shape", "%s has shape %r, declared dims %r\n%s" % (nm, shape, leaf_dims(L[base]), text))
            groups[nm] = elems
            exp_order += [n for n, _ in elems]
        if got_set != set(exp_order):
            raise Violation(
                "expanded_names:" + cat,
                "%s: unexpected %r missing %r\n%s" % (cat, sorted(got_set - set(exp_order))[:8], sorted(set(exp_order) - got_set)[:8], text),
            )
        if got != exp_order:
            labels.add("order:not_rowmajor_in_place")
        for v in getattr(m1, cat):
            if (int(v.symbol.size1()), int(v.symbol.size2())) != (1, 1):
                raise Violation("expanded_variable_not_scalar", "%s has shape %r\n%s" % (v.symbol.name(), v.symbol.shape, text))
    labels.add("order:checked")

    # ---- evaluation points -------------------------------------------
    rs = np.random.RandomState(case["seed"])
    by_name1 = {}
    for cat in CATS:
        for v in getattr(m1, cat):
            by_name1[v.symbol.name()] = v
    bool_names = {n for nm, (leaf, _) in owner.items() if leaf is not None and leaf["type"] == "Boolean" for n, _ in groups[nm]}

    def draw_point():
        val = {}
        for cat in CATS:
            for v in getattr(m0, cat):
                for n, _ in groups[v.symbol.name()]:
                    val[n] = float(rs.randint(0, 2)) if n in bool_names else float(rs.uniform(0.5, 3.0))
        return val, float(rs.uniform(0.5, 3.0))

    def args0(val, t):
        def vec(vs):
            out = []
            for v in vs:
                arr = np.zeros((int(v.symbol.size1()), int(v.symbol.size2())))
                for n, idx in groups[v.symbol.name()]:
                    arr[pos2(idx)] = val[n]
                out += list(arr.flatten(order="F"))
            return ca.DM(out) if out else ca.DM.zeros(0, 1)

        return [ca.DM(t), vec(m0.states), vec(m0.der_states), vec(m0.alg_states), vec(m0.inputs), vec(m0.constants), vec(m0.parameters)]

    def args1(val, t):
        def vec(vs):
            out = [val[v.symbol.name()] for v in vs]
            return ca.DM(out) if out else ca.DM.zeros(0, 1)

        return [ca.DM(t), vec(m1.states), vec(m1.der_states), vec(m1.alg_states), vec(m1.inputs), vec(m1.constants), vec(m1.parameters)]

    points = [draw_point() for _ in range(2)]

    # ---- (b) attributes ----------------------------------------------
    val = points[0][0]
    for cat in CATS:
        for v0 in getattr(m0, cat):
            nm = v0.symbol.name()
            leaf, isder = owner[nm]
            specs = leaf["attrs"] if (leaf is not None and not isder) else {}
            for ename, idx in groups[nm]:
                v1 = by_name1[ename]
                if v1.python_type is not v0.python_type:
                    raise Violation("expanded_python_type", "%s: %s, array %s has %s\n%s" % (ename, v1.python_type.__name__, nm, v0.python_type.__name__, text))
                for a in ATTRS:
                    got = attr_num(getattr(v1, a), val, ename)
                    if got.size != 1:
                        raise Violation("attribute_not_scalar:" + a, "%s.%s = %r\n%s" % (ename, a, getattr(v1, a), text))
                    got = float(got.reshape(-1)[0])
                    if a in specs:
                        exp = spec_elem(specs[a], idx, val)
                        src = "spec:" + specs[a]["form"]
                    else:
                        ref = attr_num(getattr(v0, a), {}, nm)
                        if ref.size == 1:
                            exp = float(ref.reshape(-1)[0])
                        else:
                            exp = float(ref.reshape((int(v0.symbol.size1()), int(v0.symbol.size2())), order="F")[pos2(idx)])
                        src = "unset"
                    if not close(got, exp):
                        raise Violation(
                            "attribute_element:%s:%s" % (a, src),
                            "%s.%s = %r, expected %r (element %r of %s)\n%s" % (ename, a, got, exp, tuple(i + 1 for i in idx), nm, text),
                        )

    # ---- (c) residuals, (d) delay arguments --------------------------
    fns = {}
    for fn in ("dae_residual_function", "initial_residual_function", "delay_arguments_function"):
        fns[fn] = (
            guarded(lambda: getattr(m0, fn), where=fn + "_unexpanded"),
            guarded(lambda: getattr(m1, fn), where=fn + "_expanded"),
        )
    delay1 = list(m1.delay_states)
    exp_delay = []
    for k, nm in enumerate(delay0):
        exp_delay.append([n for n, _ in groups[nm]])
    flat_exp_delay = [n for g in exp_delay for n in g]
    if sorted(delay1) != sorted(flat_exp_delay):
        raise Violation("delay_states", "delay_states %r, expected the elements %r\n%s" % (delay1, flat_exp_delay, text))
    if not set(delay1) <= {v.symbol.name() for v in m1.inputs}:
        raise Violation("delay_states_not_inputs", "%r\n%s" % (delay1, text))

    for val, t in points:
        a0, a1 = args0(val, t), args1(val, t)
        for fn in ("dae_residual_function", "initial_residual_function"):
            f0, f1 = fns[fn]
            o0 = guarded(f0.call, a0, where="eval_unexpanded")
            o1 = guarded(f1.call, a1, where="eval_expanded")
            r0 = np.array(o0[0], dtype=float).reshape(-1, order="F") if o0 else np.zeros(0)
            r1 = np.array(o1[0], dtype=float).reshape(-1, order="F") if o1 else np.zeros(0)
            if len(r0) != len(r1):
                raise Violation("residual_length:" + fn, "expanded %d entries, unexpanded %d\n%s" % (len(r1), len(r0), text))
            for k in range(len(r0)):
                if not close(r0[k], r1[k], 1e-8):
                    raise Violation(
                        "residual_value:" + fn,
                        "entry %d: expanded %r unexpanded %r\nexpanded   %r\nunexpanded %r\n%s" % (k, r1[k], r0[k], list(r1), list(r0), text),
                    )
        if delay0:
            f0, f1 = fns["delay_arguments_function"]
            o0 = guarded(f0.call, a0, where="eval_delay_unexpanded")
            o1 = guarded(f1.call, a1, where="eval_delay_expanded")
            if len(o0) != 2 * len(delay0) or len(o1) != 2 * len(delay1):
                raise Violation("delay_arguments_count", "%d / %d outputs for %d / %d delay states\n%s" % (len(o0), len(o1), len(delay0), len(delay1), text))
            ref = {}
            for k, nm in enumerate(delay0):
                e = np.array(o0[2 * k], dtype=float)
                dur = float(np.array(o0[2 * k + 1], dtype=float).reshape(-1)[0])
                if e.shape != (int(by_shape(m0, nm)[0]), int(by_shape(m0, nm)[1])):
                    raise Violation("unexpanded_delay_shape", "%s: expression %r, state %r\n%s" % (nm, e.shape, by_shape(m0, nm), text))
                for n, idx in groups[nm]:
                    ref[n] = (float(e[pos2(idx)]), dur)
            for k, n in enumerate(delay1):
                e = np.array(o1[2 * k], dtype=float)
                dur = float(np.array(o1[2 * k + 1], dtype=float).reshape(-1)[0])
                if e.size != 1 or not close(float(e.reshape(-1)[0]), ref[n][0], 1e-8) or not close(dur, ref[n][1], 1e-8):
                    raise Violation(
                        "delay_arguments",
                        "%s: expression %r duration %r, expected %r\n%s" % (n, e.reshape(-1)[:4], dur, ref[n], text),
                    )

    # ---- (d) outputs ---------------------------------------------------
    out1 = list(m1.outputs)
    k = 0
    for nm in m0.outputs:
        if nm not in groups:
            raise Violation("unexpanded_output_unknown", "%s\n%s" % (nm, text))
        g = [n for n, _ in groups[nm]]
        seg = out1[k:k + len(g)]
        if sorted(seg) != sorted(g):
            raise Violation("outputs", "outputs %r, expected %r replaced by %r at position %d\n%s" % (out1, nm, g, k, text))
        if seg != g:
            labels.add("outputs:not_rowmajor")
        k += len(g)
    if k != len(out1):
        raise Violation("outputs", "outputs %r has extra entries (unexpanded %r)\n%s" % (out1, list(m0.outputs), text))

    if delay0:
        labels.add("delay_states:%d" % min(len(delay0), 3))
        if any(by_shape(m0, nm)[0] * by_shape(m0, nm)[1] > 1 for nm in delay0):
            labels.add("delay_array_state")
        if any(min(by_shape(m0, nm)) > 1 for nm in delay0):
            labels.add("delay_2d_state")
    if any(isder and len(leaf["levels"]) > 1 and len(leaf_dims(leaf)) == 2 for leaf, isder in owner.values() if leaf is not None):
        labels.add("der_of_nested_array")
    for nm, (leaf, isder) in owner.items():
        if leaf is None or isder:
            continue
        for a, spec in leaf["attrs"].items():
            labels.add("attr:%s:%s%s" % ("value" if a == "value" else "meta", spec["form"], ":each" if spec.get("each") else ""))
            if 0 < spec_nd(spec) < len(leaf_dims(leaf)):
                labels.add("attr:trailing_dims_only")
            if spec_nd(spec) == 2:
                labels.add("attr:2d")


def by_shape(m, name):
    for v in m.inputs:
        if v.symbol.name() == name:
            return (int(v.symbol.size1()), int(v.symbol.size2()))
    raise Violation("delay_state_not_input", name)


# --------------------------------------------------------------------------
# strategy
# --------------------------------------------------------------------------
COEFS = [2, 3, 0.5, 1.5, -2, 4, -0.5, 2.5]
SHAPES = [(2, 3), (3, 2), (2, 3), (3, 2), (1, 3), (3, 1), (2, 2), (1, 2), (2, 1), (3, 3)]


def nested_lit(dims, base, step):
    """Row-major enumeration base, base+step, ... so that every element differs."""
    n = int(np.prod(dims)) if dims else 1
    flat = [base + k * step for k in range(n)]
    if isinstance(base, int) and isinstance(step, int):
        flat = [int(x) for x in flat]

    def build(ds, off):
        if not ds:
            return flat[off]
        size = int(np.prod(ds[1:])) if len(ds) > 1 else 1
        return [build(ds[1:], off + i * size) for i in range(ds[0])]

    return build(list(dims), 0)


@st.composite
def array_spec(draw, dims, kind="real", forms=("lit", "lit", "lit", "each", "scalar", "fill"), sym=None):
    """Attribute value for an array with the given dims."""
    f = draw(st.sampled_from(list(forms) + ([sym] * 2 if sym else [])))
    if kind == "bool":
        if f in ("lit", "fill") or f == sym:
            bits = draw(st.lists(st.booleans(), min_size=int(np.prod(dims)), max_size=int(np.prod(dims))))

            def build(ds, off):
                if not ds:
                    return bits[off]
                size = int(np.prod(ds[1:])) if len(ds) > 1 else 1
                return [build(ds[1:], off + i * size) for i in range(ds[0])]

            return {"form": "lit", "v": build(list(dims), 0)}
        return {"form": "scalar", "v": draw(st.booleans()), "each": f == "each"}
    if kind == "int":
        base, step = draw(st.integers(-3, 5)), draw(st.sampled_from([1, 2, -1]))
        if f == "lit" or f == sym:
            return {"form": "lit", "v": nested_lit(dims, base, step)}
        if f == "fill":
            return {"form": "fill", "v": base, "dims": list(dims)}
        return {"form": "scalar", "v": base, "each": f == "each"}
    base = draw(st.sampled_from([0, 1, -2, 0.5, 1.5, -0.25, 3]))
    step = draw(st.sampled_from([1, 0.5, -1, 2, 0.25]))
    if f == "lit":
        return {"form": "lit", "v": nested_lit(dims, base, step)}
    if f == "fill":
        return {"form": "fill", "v": float(base), "dims": list(dims)}
    if f in ("each", "scalar"):
        return {"form": "scalar", "v": base, "each": f == "each"}
    if f == "pm":
        return {"form": "sym", "sym": "pm", "k": draw(st.sampled_from(COEFS)), "each": True}
    return {"form": "sym", "sym": f, "k": draw(st.sampled_from(COEFS))}


@st.composite
def attr_set(draw, dims, kind="real", sym=None, forms=None, max_n=3):
    names = ["start", "min", "max", "nominal", "fixed"] if kind == "real" else (["start", "min", "max", "fixed"] if kind == "int" else ["start", "fixed"])
    chosen = draw(st.lists(st.sampled_from(names), max_size=max_n, unique=True))
    out = {}
    for a in chosen:
        kw = {}
        if forms is not None:
            kw["forms"] = forms
        if a == "fixed":
            out[a] = draw(array_spec(dims, "bool", **kw))
        else:
            out[a] = draw(array_spec(dims, kind, sym=sym if kind == "real" else None, **kw))
    return out


def decl(name, type_="Real", prefix="", dims=(), attrs=None, mods=None):
    d = {"name": name, "type": type_, "prefix": prefix, "dims": list(dims), "attrs": attrs or {}}
    if mods:
        d["mods"] = mods
    return d


@st.composite
def case_strategy(draw, ctx=None):
    known = ctx is not None and ctx.known(FEATURE)
    excluded = [False]

    def inner_forms():
        """Forms for array attributes that span only the inner dimensions."""
        if known:
            excluded[0] = True
            return ("each", "scalar")
        return ("lit", "lit", "fill", "each", "scalar")

    seed = draw(st.integers(0, 2**31 - 1))
    n = draw(st.sampled_from([2, 3, 3]))
    r, c = draw(st.sampled_from(SHAPES))
    wn = draw(st.sampled_from([2, 3]))
    feats = set()

    def I(k):
        return draw(st.integers(1, k))

    def C():
        return fnum(draw(st.sampled_from(COEFS)))

    comps = draw(st.lists(st.sampled_from(["s", "h", "t", "g"]), max_size=3, unique=True))
    if not comps and draw(st.integers(0, 5)):
        comps = [draw(st.sampled_from(["s", "h", "s", "t"]))]
    ks = draw(st.sampled_from([1, 2, 2, 3]))
    ks2 = draw(st.sampled_from([2, 2, 3]))
    tr, tc = draw(st.sampled_from([(2, 1), (1, 2), (2, 3), (3, 2), (2, 2)]))
    classes = {}

    # ---- classes -------------------------------------------------------
    def sub_mods(k_):
        """Modifications on `Sub name[k_]`."""
        mods = []
        for kind in draw(st.lists(st.sampled_from(["q", "w", "w_each", "w_scal", "k", "a"]), max_size=3, unique=True)):
            if kind == "q":
                mods.append({"target": "q", "attr": "start", "spec": draw(array_spec([k_], forms=("lit",)))})
            elif kind == "w":
                mods.append({"target": "w", "attr": draw(st.sampled_from(["start", "max"])), "spec": draw(array_spec([k_, wn], forms=("lit", "lit", "fill")))})
            elif kind == "w_each":
                if known:
                    excluded[0] = True
                    continue
                sp = draw(array_spec([wn], forms=("lit",)))
                sp["each"] = True
                mods.append({"target": "w", "attr": "min", "spec": sp})
            elif kind == "w_scal":
                mods.append({"target": "w", "attr": "nominal", "spec": draw(array_spec([k_, wn], forms=("each", "scalar")))})
            elif kind == "k":
                mods.append({"target": "k", "attr": "value", "spec": draw(array_spec([k_, 2], forms=("lit",)))})
            else:
                mods.append({"target": "a", "attr": "start", "spec": draw(array_spec([k_], forms=("each", "lit")))})
        return mods

    if set(comps) & {"s", "h", "g"}:
        in_array = bool(set(comps) & {"s", "h"})
        wattrs = draw(attr_set([wn], forms=inner_forms() if in_array else None, max_n=2))
        kattrs = {}
        if draw(st.booleans()):
            if in_array and known:
                excluded[0] = True
            else:
                kattrs["value"] = draw(array_spec([2], forms=("lit",)))
        sub_eqs = ["der(q) = -q + a;"]
        for kind in draw(st.lists(st.sampled_from(["w1", "for", "ak", "derw", "wlast"]), max_size=4, unique=True)):
            if kind == "w1":
                sub_eqs.append("w[1] = %s*a;" % C())
            elif kind == "for":
                sub_eqs.append("for i in 2:%d loop w[i] = w[i-1]*i + q; end for;" % wn)
                feats.add("for_in_component_array")
            elif kind == "ak":
                sub_eqs.append("a = k[1] - %s*k[2];" % C())
            elif kind == "derw":
                sub_eqs.append("der(w) = -%s*w;" % fnum(draw(st.sampled_from([2, 0.5, 3]))))
                feats.add("der_array_in_component")
            else:
                sub_eqs.append("w[%d] = q + w[1];" % wn)
        classes["Sub"] = {
            "decls": [
                decl("a"),
                decl("w", dims=[wn], attrs=wattrs),
                decl("q", attrs={"start": {"form": "scalar", "v": draw(st.sampled_from([0.5, 1, 2]))}} if draw(st.booleans()) else {}),
                decl("k", prefix="parameter", dims=[2], attrs=kattrs),
            ],
            "eqs": sub_eqs,
        }
    if "t" in comps:
        classes["Leaf"] = {
            "decls": [decl("a"), decl("b", attrs={"start": {"form": "scalar", "v": 2}} if draw(st.booleans()) else {})],
            "eqs": ["b = %s*a;" % C()],
        }
    if "h" in comps:
        gattrs = draw(attr_set([r, c], max_n=2))
        classes["Wrap"] = {
            "decls": [decl("s", "Sub", dims=[ks2], mods=sub_mods(ks2)), decl("G", dims=[r, c], attrs=gattrs)],
            "eqs": ["G[%d,%d] = %s*s[%d].a;" % (I(r), I(c), C(), I(ks2))] if draw(st.booleans()) else [],
        }

    # ---- top level declarations ---------------------------------------
    decls = [
        decl("pm", prefix="parameter"),
        decl("pv", prefix="parameter", dims=[n]),
        decl("PV", prefix="parameter", dims=[r, c]),
        decl("x", dims=[n], attrs=draw(attr_set([n], sym=draw(st.sampled_from(["pv", "pm"]))))),
        decl("A", dims=[r, c], attrs=draw(attr_set([r, c], sym=draw(st.sampled_from(["PV", "pm"]))))),
        decl("B", dims=[r, c], attrs=draw(attr_set([r, c], max_n=2))),
        decl("Bt", dims=[c, r], attrs=draw(attr_set([c, r], max_n=1))),
        decl("p", prefix="parameter", dims=[n], attrs={"value": draw(array_spec([n], forms=("lit", "lit", "fill"), sym="pv"))}),
        decl("P", prefix="parameter", dims=[r, c], attrs=dict(draw(attr_set([r, c], max_n=1)), value=draw(array_spec([r, c], forms=("lit", "lit", "fill"))))),
        decl("c3", prefix="constant", dims=[n], attrs={"value": draw(array_spec([n], forms=("lit",)))}),
        decl("ip", "Integer", prefix="parameter", dims=[n], attrs={"value": draw(array_spec([n], "int", forms=("lit", "fill")))}),
        decl("d", prefix="parameter", attrs={"value": {"form": "scalar", "v": 0.5}}),
        decl("iv", "Integer", dims=[2], attrs=draw(attr_set([2], "int", max_n=2))),
        decl("bv", "Boolean", dims=[2], attrs=draw(attr_set([2], "bool", max_n=1))),
        decl("u", prefix="input", dims=[n], attrs=draw(attr_set([n], max_n=2))),
        decl("U", prefix="input", dims=[r, c], attrs=draw(attr_set([r, c], max_n=1))),
        decl("y", prefix="output", dims=[n], attrs=draw(attr_set([n], max_n=1))),
        decl("Y", prefix="output", dims=[r, c]),
        decl("yo", prefix="output"),
        decl("z"),
        decl("zz", dims=[n]),
        decl("vc", dims=[c]),
        decl("vr", dims=[r]),
    ]
    if "s" in comps:
        decls.append(decl("s", "Sub", dims=[ks], mods=sub_mods(ks)))
    if "h" in comps:
        decls.append(decl("h", "Wrap"))
    if "t" in comps:
        tm = []
        if draw(st.booleans()):
            tm.append({"target": "a", "attr": "start", "spec": draw(array_spec([tr, tc], forms=("lit", "lit", "fill")))})
        if draw(st.booleans()):
            tm.append({"target": "b", "attr": "max", "spec": draw(array_spec([tr, tc], forms=("each", "scalar", "lit")))})
        decls.append(decl("t", "Leaf", dims=[tr, tc], mods=tm))
    if "g" in comps:
        gm = []
        if draw(st.booleans()):
            gm.append({"target": "w", "attr": "start", "spec": draw(array_spec([wn], forms=("lit", "fill", "each")))})
        decls.append(decl("g", "Sub", mods=gm))
    fixed_head = decls[:3]
    rest = draw(st.permutations(decls[3:]))
    decls = fixed_head + list(rest)

    # ---- equations -----------------------------------------------------
    sens2d, sensnest = set(), set()  # index-sensitive templates on the 2-D arrays / nested arrays

    def shift_loop():
        s = draw(st.sampled_from([1, -1, 1, -1, 0]))
        lo, hi = 1 + max(0, -s), n - max(0, s)
        sub = "i" if s == 0 else ("i+%d" % s if s > 0 else "i-%d" % -s)
        return lo, hi, sub, s

    pool = []

    def T(name, fn, nt2d=False, ntnest=False):
        pool.append((name, fn, nt2d, ntnest))

    T("der_array", lambda: "der(x) = -%s*x;" % C())
    T("der_elem", lambda: "der(x[%d]) = %s*x[%d] + p[%d];" % (I(n), C(), I(n), I(n)))
    T("der_2d", lambda: "der(B) = %s*P - %s*A;" % (C(), C()), nt2d=True)
    T("der_elem_2d", lambda: "der(B[%d,%d]) = A[%d,%d] + %s*U[%d,%d];" % (I(r), I(c), I(r), I(c), C(), I(r), I(c)), nt2d=True)
    T("elem_2d", lambda: "A[%d,%d] = %s*x[%d] + B[%d,%d];" % (I(r), I(c), C(), I(n), I(r), I(c)), nt2d=True)
    T("elem_2d_param", lambda: "A[%d,%d] = P[%d,%d]*%s - PV[%d,%d];" % (I(r), I(c), I(r), I(c), C(), I(r), I(c)), nt2d=True)
    T("row_slice", lambda: "A[%d,:] = %s*P[%d,:] + B[%d,:];" % (I(r), C(), I(r), I(r)), nt2d=True)
    T("col_slice", lambda: "A[:,%d] = P[:,%d] - %s*B[:,%d];" % (I(c), I(c), C(), I(c)), nt2d=True)
    T("row_to_vector", lambda: "vc = %s*A[%d,:];" % (C(), I(r)), nt2d=True)
    T("col_to_vector", lambda: "vr = B[:,%d] + %s*vr;" % (I(c), C()), nt2d=True)

    def slice_eq():
        ln = draw(st.integers(1, n - 1))
        a, b, e = (draw(st.integers(1, n - ln + 1)) for _ in range(3))
        return "y[%d:%d] = x[%d:%d] + %s*u[%d:%d];" % (a, a + ln - 1, b, b + ln - 1, C(), e, e + ln - 1)

    T("slice", slice_eq)

    def for_shifted():
        lo, hi, sub, s = shift_loop()
        if s:
            feats.add("for_shifted")
        return "for i in %d:%d loop zz[i] = x[%s]*p[i] + %s*i; end for;" % (lo, hi, sub, C())

    T("for", for_shifted)
    T("for_2d_row", lambda: "for i in 1:%d loop A[i,%d] = %s*B[i,%d]*P[i,%d] + i; end for;" % (r, I(c), C(), I(c), I(c)), nt2d=True)

    def for_2d_col():
        s = draw(st.sampled_from([0, 1, -1])) if c > 1 else 0
        lo, hi = 1 + max(0, -s), c - max(0, s)
        sub = "j" if s == 0 else ("j+%d" % s if s > 0 else "j-%d" % -s)
        return "for j in %d:%d loop A[%d,%s] = B[%d,j]*j + %s*U[%d,j]; end for;" % (lo, hi, I(r), sub, I(r), C(), I(r))

    T("for_2d_col", for_2d_col, nt2d=True)
    T("whole_2d", lambda: "Y = %s*A + P;" % C(), nt2d=True)
    T("whole_2d_elementwise", lambda: "Y = A .* B - %s*U;" % C(), nt2d=True)
    T("transpose", lambda: "A = %s*transpose(Bt);" % C(), nt2d=True)
    T("matvec", lambda: "vr = A*vc + %s*vr;" % C(), nt2d=True)
    T("elementwise", lambda: "zz = x .* p + %s*c3;" % C())
    T("sum", lambda: "yo = sum(x) + %s*A[%d,%d];" % (C(), I(r), I(c)), nt2d=True)
    T("int_array", lambda: "iv[%d] = ip[%d] + iv[%d];" % (I(2), I(n), I(2)))
    T("bool_array", lambda: "bv[%d] = x[%d] > %s;" % (I(2), I(n), fnum(draw(st.sampled_from([1, 1.5, 2])))))
    T("out_scalar", lambda: "yo = %s*y[%d] + Y[%d,%d];" % (C(), I(n), I(r), I(c)), nt2d=True)
    # delays
    T("delay_elem", lambda: "z = delay(x[%d], d);" % I(n))
    T("delay_elem_2d", lambda: "z = delay(%s*A[%d,%d], d);" % (C(), I(r), I(c)), nt2d=True)

    def delay_loop():
        lo, hi, sub, s = shift_loop()
        return "for i in %d:%d loop zz[i] = delay(%s*x[%s]*p[i], d); end for;" % (lo, hi, C(), sub)

    T("delay_loop", delay_loop)
    T("delay_array", lambda: "zz = delay(%s*x, d);" % C())
    T("delay_2d", lambda: "B = delay(%s*A, d);" % C(), nt2d=True)
    # nested
    if "s" in comps:
        T("nested_elem:s", lambda: "s[%d].w[%d] = %s*x[%d];" % (I(ks), I(wn), C(), I(n)), ntnest=True)
        T("nested_rhs:s", lambda: "yo = s[%d].w[%d] + %s*s[%d].q - s[%d].k[%d];" % (I(ks), I(wn), C(), I(ks), I(ks), I(2)), ntnest=True)
        T("nested_der:s", lambda: "der(s[%d].w[%d]) = %s*s[%d].a;" % (I(ks), I(wn), C(), I(ks)), ntnest=True)
        T("nested_delay:s", lambda: "z = delay(s[%d].w[%d], d);" % (I(ks), I(wn)), ntnest=True)
    if "h" in comps:
        T("nested_elem:h", lambda: "h.s[%d].w[%d] = %s*A[%d,%d];" % (I(ks2), I(wn), C(), I(r), I(c)), ntnest=True)
        T("nested_rhs:h", lambda: "h.G[%d,%d] = %s*h.s[%d].a + h.s[%d].w[%d];" % (I(r), I(c), C(), I(ks2), I(ks2), I(wn)), ntnest=True)
        T("nested_whole:h", lambda: "h.G = %s*A + P;" % C(), nt2d=True)
        T("nested_der:h", lambda: "der(h.s[%d].w[%d]) = %s*h.G[%d,%d];" % (I(ks2), I(wn), C(), I(r), I(c)), ntnest=True)
    if "t" in comps:
        T("nested_elem:t", lambda: "t[%d,%d].a = %s*x[%d] + t[%d,%d].b;" % (I(tr), I(tc), C(), I(n), I(tr), I(tc)), ntnest=True)
        T("nested_der:t", lambda: "der(t[%d,%d].a) = -%s*t[%d,%d].b;" % (I(tr), I(tc), C(), I(tr), I(tc)), ntnest=True)
    if "g" in comps:
        T("nested_elem:g", lambda: "g.w[%d] = %s*g.q + x[%d];" % (I(wn), C(), I(n)))
        if wn == n:
            T("nested_whole:g", lambda: "g.w = %s*x;" % C())

    names = [t[0] for t in pool]
    neq = draw(st.integers(5, 10))
    order = draw(st.permutations(names))
    chosen = list(order[:neq])
    # make sure the index-sensitive constructs of the non-trivial rule occur
    for comp in comps:
        mine = [t[0] for t in pool if t[0].endswith(":" + comp)]
        if not any(k in mine for k in chosen) and draw(st.integers(0, 3)):
            chosen.append(draw(st.sampled_from(mine)))
    want2 = [t[0] for t in pool if t[2]]
    if not any(k in want2 for k in chosen):
        chosen[-1] = draw(st.sampled_from(want2))
    table = {t[0]: t for t in pool}
    eqs = []
    for k in chosen:
        _, fn, nt2d, ntnest = table[k]
        eqs.append(fn())
        feats.add(k)
        if nt2d:
            sens2d.add(k)
        if ntnest:
            sensnest.add(k)

    ipool = [
        lambda: "x[%d] = %s;" % (I(n), C()),
        lambda: "x = %s*p;" % C(),
        lambda: "A[%d,%d] = %s*P[%d,%d];" % (I(r), I(c), C(), I(r), I(c)),
        lambda: "B = P;",
    ]
    if "s" in comps:
        ipool.append(lambda: "s[%d].q = %s;" % (I(ks), C()))
        ipool.append(lambda: "s[%d].w[%d] = x[%d];" % (I(ks), I(wn), I(n)))
    if "h" in comps:
        ipool.append(lambda: "h.s[%d].w[%d] = %s;" % (I(ks2), I(wn), C()))
    if "t" in comps:
        ipool.append(lambda: "t[%d,%d].b = %s;" % (I(tr), I(tc), C()))
    ieqs = [draw(st.sampled_from(ipool))() for _ in range(draw(st.integers(0, 3)))]
    if ieqs:
        feats.add("initial_eq")

    for k in comps:
        feats.add("comp:" + k)
    feats.add("shape:%dx%d" % (r, c))
    if r != c:
        feats.add("nonsquare")
    if "s" in comps:
        feats.add("comp_array_size:%d" % ks)
    nt = bool((r != c and sens2d) or sensnest)
    if excluded[0] and ctx is not None:
        ctx.exclude(FEATURE)
    return {
        "seed": seed,
        "classes": classes,
        "top": {"decls": decls, "eqs": eqs, "ieqs": ieqs},
        "feats": sorted(feats),
        "nt": nt,
    }


def shard(ctx):
    drive(ctx, case_strategy(ctx), check_case, ctx.share(400, 20000))


def replay(ctx, case):
    check_case(ctx, case)


MANIFEST = dict(
    text="Generated models with 1-D/2-D arrays, arrays of components holding arrays, derivatives of arrays, "
    "array-valued attributes, outputs and delays are compiled with and without expand_vectors.  The "
    "expanded model must have exactly the scalars the abstract model prescribes (1-based indices after "
    "the owning path element, inside der(...)), each with the attribute element computed from the "
    "abstract model; both residual functions and the delay arguments must agree numerically with the "
    "unexpanded model when its arrays are filled by expanded name; outputs and delay states must be "
    "renamed element-wise.  Sampling of models and evaluation points.",
    note="Trusts the 40-line reference flattener/namer in this module, the unexpanded model's reading of "
    "subscripts (C11) and CasADi's numeric evaluation.  3-D arrays cannot be compared and are left out.",
    technique="property-based differential/metamorphic testing: expanded vs unexpanded model under a reference renaming",
)
