"""C04 - Parsed class structure reflects the source declarations.

Round trip: abstract class description -> Modelica text -> pymoca.parser.parse
-> comparison of the ast.Class with the description (the oracle never parses
text itself: the expected structure is known by construction)."""
from hypothesis import strategies as st

from vf.core import Discard, Violation, drive, guarded

ID = "C04"
LEVEL = "exploration"
RULE = (
    "class texts built from: component clauses with 1-4 declarators, 0-3 type prefixes, clause- and "
    "declarator-level array subscripts, attribute modifications / declaration values / both, string "
    "comments, unlabelled + public/protected element sections in any number and order interleaved "
    "with (initial) equation and algorithm sections, nested classes (2 levels), extends with "
    "modifications, the four import forms; plus a duplicate-declaration variant.  non-trivial = "
    ">= 1 multi-declarator clause and >= 2 sections; distinct = distinct abstract class."
)
ASSUMPTIONS = [
    "visibility of the unlabelled leading element section may be reported as private or public "
    "(pymoca says private, MLS says public; neither is forced by docs or callers) but must be uniform",
    "array dimensions follow MLS 10.1: declarator subscripts, then clause subscripts",
    "only integer-literal dimensions and literal modification values are generated (expressions are C03's domain)",
]

PREFIX_A = [[], ["flow"]]
PREFIX_B = [[], ["discrete"], ["parameter"], ["constant"]]
PREFIX_C = [[], ["input"], ["output"]]
TYPES = ["Real", "Integer", "Boolean", "Real", "T1", "P.T2"]
ATTRS = ["start", "min", "max", "nominal", "fixed"]
LITS = ["1", "2", "7", "1.5", "0.25", "3e2", "true", "false"]


def lit_value(t):
    if t == "true":
        return True
    if t == "false":
        return False
    try:
        return int(t)
    except ValueError:
        return float(t)


class Names:
    def __init__(self):
        self.n = 0

    def new(self, p="v"):
        self.n += 1
        return "%s%d" % (p, self.n)


@st.composite
def comp_item(draw, names):
    prefixes = draw(st.sampled_from(PREFIX_A)) + draw(st.sampled_from(PREFIX_B)) + draw(st.sampled_from(PREFIX_C))
    ndecl = draw(st.sampled_from([1, 1, 2, 3, 4]))
    cd = draw(st.sampled_from([None, None, [3], [2, 2]]))
    decls = []
    for _ in range(ndecl):
        nm = draw(st.integers(0, 2))
        attrs = draw(st.permutations(ATTRS))[:nm]
        decls.append(
            {
                "name": names.new(),
                "ddims": draw(st.sampled_from([None, None, [2], [4, 1]])),
                "mods": [[a, draw(st.sampled_from(LITS[:6] if a != "fixed" else LITS[6:]))] for a in attrs],
                "value": draw(st.sampled_from([None, None, "1", "2.5", "42"])),
                "comment": draw(st.sampled_from(["", "", "a comment", "x y z"])),
            }
        )
    return {"i": "comp", "prefixes": prefixes, "type": draw(st.sampled_from(TYPES)), "cdims": cd, "decls": decls}


@st.composite
def extends_item(draw, names):
    nm = draw(st.integers(0, 2))
    mods = []
    for _ in range(nm):
        if draw(st.booleans()):
            mods.append([names.new("b"), draw(st.sampled_from(ATTRS[:4])), draw(st.sampled_from(LITS[:6]))])
        else:
            mods.append([names.new("b"), None, draw(st.sampled_from(LITS[:6]))])
    return {"i": "extends", "path": draw(st.sampled_from(["Base", "P.Base2", "B3"])), "mods": mods}


@st.composite
def import_item(draw, names):
    form = draw(st.sampled_from(["qualified", "renamed", "star", "list"]))
    pk = names.new("Pk")
    cmt = draw(st.sampled_from(["", "", "imported for its tanks"]))
    if form == "qualified":
        return {"i": "import", "form": form, "path": pk + "." + names.new("C"), "comment": cmt}
    if form == "renamed":
        return {"i": "import", "form": form, "path": pk + ".Sub", "short": names.new("S"), "comment": cmt}
    if form == "star":
        return {"i": "import", "form": form, "path": pk, "comment": cmt}
    return {"i": "import", "form": form, "path": pk, "names": [names.new("L") for _ in range(draw(st.integers(1, 3)))], "comment": cmt}


@st.composite
def class_def(draw, names, depth, kind=None):
    kind = kind or draw(st.sampled_from(["model", "model", "class", "block", "connector", "package", "record"]))
    name = names.new("K")
    sections = []
    nsec = draw(st.integers(1, 6))
    declared = []
    for si in range(nsec):
        if si == 0:
            sk = draw(st.sampled_from(["elems0", "elems0", "none"]))
        else:
            sk = draw(st.sampled_from(["public", "protected", "protected", "public", "eq", "eq", "ieq", "alg", "ialg"]))
        if sk == "none":
            continue
        if sk in ("elems0", "public", "protected"):
            items = []
            for _ in range(draw(st.integers(0, 3))):
                ik = draw(st.sampled_from(["comp", "comp", "comp", "extends", "import", "class"]))
                if ik == "comp":
                    it = draw(comp_item(names))
                    declared += [d["name"] for d in it["decls"]]
                    items.append(it)
                elif ik == "extends":
                    items.append(draw(extends_item(names)))
                elif ik == "import":
                    items.append(draw(import_item(names)))
                elif depth > 0:
                    items.append({"i": "class", "cls": draw(class_def(names, depth - 1))})
            sections.append({"s": "elems", "vis": None if sk == "elems0" else sk, "items": items})
        else:
            items = []
            for _ in range(draw(st.integers(0, 3))):
                lhs = draw(st.sampled_from(declared)) if declared else "zz"
                k = names.n = names.n + 1
                if sk in ("eq", "ieq"):
                    q = draw(st.sampled_from(["simple", "simple", "simple", "for", "if"]))
                else:
                    q = "assign"
                items.append({"q": q, "lhs": lhs, "k": k})
            sections.append({"s": "eq" if sk in ("eq", "ieq") else "alg", "initial": sk in ("ieq", "ialg"), "items": items})
    return {"name": name, "kind": kind, "comment": draw(st.sampled_from(["", "", "class doc"])), "sections": sections}


@st.composite
def case_strategy(draw):
    names = Names()
    cls = draw(class_def(names, 2, kind="model"))
    dup = None
    if draw(st.integers(0, 5)) == 0:
        # duplicate variant: re-declare a name of the top class in a new trailing section
        top = [d["name"] for s in cls["sections"] if s["s"] == "elems" for it in s["items"] if it["i"] == "comp" for d in it["decls"]]
        if top:
            dup = draw(st.sampled_from(top))
    return {"cls": cls, "dup": dup}


# ------------------------------------------------------------------ printer
def dims_txt(d):
    return "" if not d else "[" + ",".join(str(x) for x in d) + "]"


def print_item(it, ind):
    if it["i"] == "comp":
        ds = []
        for d in it["decls"]:
            t = d["name"] + dims_txt(d["ddims"])
            if d["mods"]:
                t += "(" + ", ".join("%s = %s" % (a, v) for a, v in d["mods"]) + ")"
            if d["value"] is not None:
                t += " = " + d["value"]
            if d["comment"]:
                t += ' "%s"' % d["comment"]
            ds.append(t)
        return ind + " ".join(it["prefixes"] + [it["type"] + dims_txt(it["cdims"])]) + " " + ", ".join(ds) + ";\n"
    if it["i"] == "extends":
        m = ""
        if it["mods"]:
            parts = []
            for n, a, v in it["mods"]:
                parts.append("%s(%s = %s)" % (n, a, v) if a else "%s = %s" % (n, v))
            m = "(" + ", ".join(parts) + ")"
        return ind + "extends " + it["path"] + m + ";\n"
    if it["i"] == "import":
        c = ' "%s"' % it["comment"] if it.get("comment") else ""
        if it["form"] == "qualified":
            return ind + "import %s%s;\n" % (it["path"], c)
        if it["form"] == "renamed":
            return ind + "import %s = %s%s;\n" % (it["short"], it["path"], c)
        if it["form"] == "star":
            return ind + "import %s.*%s;\n" % (it["path"], c)
        return ind + "import %s.{%s}%s;\n" % (it["path"], ", ".join(it["names"]), c)
    return print_class(it["cls"], ind) + ";\n"


def print_eq(q, ind):
    if q["q"] == "simple":
        return ind + "%s = %d;\n" % (q["lhs"], q["k"])
    if q["q"] == "assign":
        return ind + "%s := %d;\n" % (q["lhs"], q["k"])
    if q["q"] == "for":
        return ind + "for i in 1:3 loop\n%s  %s = %d;\n%send for;\n" % (ind, q["lhs"], q["k"], ind)
    return ind + "if %s > 0 then\n%s  %s = %d;\n%selse\n%s  %s = 0;\n%send if;\n" % (q["lhs"], ind, q["lhs"], q["k"], ind, ind, q["lhs"], ind)


def print_class(c, ind=""):
    out = ind + c["kind"] + " " + c["name"]
    if c["comment"]:
        out += ' "%s"' % c["comment"]
    out += "\n"
    for s in c["sections"]:
        if s["s"] == "elems":
            if s["vis"]:
                out += ind + s["vis"] + "\n"
            for it in s["items"]:
                out += print_item(it, ind + "  ")
        else:
            kw = ("initial " if s["initial"] else "") + ("equation" if s["s"] == "eq" else "algorithm")
            out += ind + kw + "\n"
            for q in s["items"]:
                out += print_eq(q, ind + "  ")
    out += ind + "end " + c["name"]
    return out


def case_text(case):
    cls = case["cls"]
    if case["dup"]:
        cls = dict(cls)
        cls["sections"] = cls["sections"] + [
            {"s": "elems", "vis": "public", "items": [{"i": "comp", "prefixes": [], "type": "Real", "cdims": None,
                                                      "decls": [{"name": case["dup"], "ddims": None, "mods": [], "value": None, "comment": ""}]}]}
        ]
    return print_class(cls) + ";\n"


# ------------------------------------------------------------------ oracle
def prim_value(node, what):
    from pymoca import ast

    if not isinstance(node, ast.Primary):
        raise Violation("modification_value_node", "%s: expected a literal, got %s" % (what, type(node).__name__))
    return node.value


def same_lit(got, txt):
    want = lit_value(txt)
    return type(got) is type(want) and got == want


def expected_dims(decl, item):
    d = (decl["ddims"] or []) + (item["cdims"] or [])
    return d


def got_dims(sym, what):
    from pymoca import ast

    dims = sym.dimensions
    if not (isinstance(dims, list) and len(dims) == 1 and isinstance(dims[0], list)):
        raise Violation("dimensions_shape", "%s: dimensions %r" % (what, dims))
    out = []
    for p in dims[0]:
        if not isinstance(p, ast.Primary):
            raise Violation("dimensions_shape", "%s: dimension node %r" % (what, p))
        if p.value is not None:
            out.append(p.value)
    return out


def check_class(c, node, path, shared):
    from pymoca import ast

    what = ".".join(path)
    if node.name != c["name"] or node.type != c["kind"]:
        raise Violation("class_header", "%s: name/type %r/%r" % (what, node.name, node.type))
    if (node.comment or "") != c["comment"]:
        raise Violation("class_comment", "%s: comment %r expected %r" % (what, node.comment, c["comment"]))
    exp_syms, exp_ext, exp_imports, exp_classes = [], [], {}, []
    exp_eq = {(False, "eq"): [], (True, "eq"): [], (False, "alg"): [], (True, "alg"): []}
    for s in c["sections"]:
        if s["s"] == "elems":
            for it in s["items"]:
                if it["i"] == "comp":
                    for d in it["decls"]:
                        exp_syms.append((d, it, s["vis"]))
                elif it["i"] == "extends":
                    exp_ext.append((it, s["vis"]))
                elif it["i"] == "import":
                    exp_imports_add(exp_imports, it)
                else:
                    exp_classes.append(it["cls"])
        else:
            exp_eq[(s["initial"], s["s"])] += s["items"]
    # --- symbols: each declared component exactly once, in order
    got_names = list(node.symbols.keys())
    want_names = [d["name"] for d, _, _ in exp_syms]
    if got_names != want_names:
        raise Violation("symbol_names_order", "%s: symbols %r expected %r" % (what, got_names, want_names))
    last_order = None
    unl_vis = set()
    for d, it, vis in exp_syms:
        sym = node.symbols[d["name"]]
        w = what + "." + d["name"]
        if sym.name != d["name"]:
            raise Violation("symbol_name", "%s: name %r" % (w, sym.name))
        if last_order is not None and not sym.order > last_order:
            raise Violation("symbol_order", "%s: order %r not after %r" % (w, sym.order, last_order))
        last_order = sym.order
        if not isinstance(sym.type, ast.ComponentRef) or ".".join(sym.type.to_tuple()) != it["type"]:
            raise Violation("symbol_type", "%s: type %r expected %r" % (w, sym.type, it["type"]))
        if list(sym.prefixes) != it["prefixes"]:
            raise Violation("symbol_prefixes", "%s: prefixes %r expected %r" % (w, sym.prefixes, it["prefixes"]))
        gd, ed = got_dims(sym, w), expected_dims(d, it)
        if gd != ed:
            lb = "both" if (d["ddims"] and it["cdims"]) else ("clause" if it["cdims"] else "declarator")
            raise Violation("symbol_dimensions:" + lb, "%s: dimensions %r expected %r" % (w, gd, ed))
        if (sym.comment or "") != d["comment"]:
            raise Violation("symbol_comment", "%s: comment %r expected %r" % (w, sym.comment, d["comment"]))
        # modifications
        exp_args = [[a, v] for a, v in d["mods"]] + ([["value", d["value"]]] if d["value"] is not None else [])
        cm = sym.class_modification
        got_args = []
        if cm is not None:
            for arg in cm.arguments:
                em = arg.value
                if not isinstance(em, ast.ElementModification) or len(em.modifications) != 1:
                    raise Violation("modification_shape", "%s: argument %r" % (w, em))
                got_args.append((em.component.name, prim_value(em.modifications[0], w)))
        # the order of modification arguments carries no meaning: compare by name
        got_args.sort(key=lambda t: t[0])
        exp_args.sort(key=lambda t: t[0])
        if len(got_args) != len(exp_args) or any(g[0] != e[0] or not same_lit(g[1], e[1]) for g, e in zip(got_args, exp_args)):
            raise Violation("symbol_modifications", "%s: modifications %r expected %r" % (w, got_args, exp_args))
        # visibility
        v = str(sym.visibility)
        if vis is None:
            unl_vis.add(v)
            if v not in ("private", "public"):
                raise Violation("visibility:unlabelled", "%s: visibility %s in the unlabelled section" % (w, v))
        elif v != vis:
            raise Violation("visibility:" + vis, "%s: visibility %s expected %s" % (w, v, vis))
        # no mutable object shared between two symbols
        for obj, kind in ((sym.prefixes, "prefixes"), (sym.dimensions, "dimensions"), (sym.type, "type"), (sym.class_modification, "class_modification")):
            if obj is None:
                continue
            if id(obj) in shared:
                raise Violation("shared_object:" + kind, "%s shares its %s object with %s" % (w, kind, shared[id(obj)]))
            shared[id(obj)] = w
    if len(unl_vis) > 1:
        raise Violation("visibility:unlabelled_mixed", "%s: unlabelled section has visibilities %r" % (what, sorted(unl_vis)))
    # --- extends
    if len(node.extends) != len(exp_ext):
        raise Violation("extends_count", "%s: %d extends clauses expected %d" % (what, len(node.extends), len(exp_ext)))
    for ec, (it, vis) in zip(node.extends, exp_ext):
        if ".".join(ec.component.to_tuple()) != it["path"]:
            raise Violation("extends_path", "%s: extends %s expected %s" % (what, ec.component, it["path"]))
        v = str(ec.visibility)
        if vis is not None and v != vis:
            raise Violation("visibility:extends_" + vis, "%s: extends %s visibility %s expected %s" % (what, it["path"], v, vis))
        args = ec.class_modification.arguments if ec.class_modification is not None else []
        got = []
        for arg in args:
            em = arg.value
            if len(em.modifications) != 1:
                raise Violation("extends_modification_shape", "%s: %r" % (what, em))
            m = em.modifications[0]
            if isinstance(m, ast.ClassModification):
                if len(m.arguments) != 1:
                    raise Violation("extends_modification_shape", "%s: %r" % (what, em))
                inner = m.arguments[0].value
                got.append((em.component.name, inner.component.name, prim_value(inner.modifications[0], what)))
            else:
                got.append((em.component.name, None, prim_value(m, what)))
        if len(got) != len(it["mods"]) or any(g[0] != e[0] or g[1] != e[1] or not same_lit(g[2], e[2]) for g, e in zip(got, it["mods"])):
            raise Violation("extends_modifications", "%s: extends %s modifications %r expected %r" % (what, it["path"], got, it["mods"]))
    # --- imports
    got_imp = {}
    for k, v in node.imports.items():
        if isinstance(v, ast.ImportClause):
            got_imp[k] = ("clause", [".".join(c.to_tuple()) for c in v.components], v.short_name, bool(v.unqualified))
        else:
            got_imp[k] = ("ref", ".".join(v.to_tuple()))
    if got_imp != exp_imports:
        raise Violation("imports", "%s: imports %r expected %r" % (what, got_imp, exp_imports))
    # --- equations / statements per section kind, in source order
    for (initial, kind), items in exp_eq.items():
        attr = ("initial_" if initial else "") + ("equations" if kind == "eq" else "statements")
        got = getattr(node, attr)
        sig_got = [eq_sig(g) for g in got]
        sig_exp = [(q["q"], q["lhs"], q["k"]) for q in items]
        if sig_got != sig_exp:
            raise Violation("section_contents:" + attr, "%s: %s = %r expected %r" % (what, attr, sig_got, sig_exp))
    # --- nested classes attached here only
    if list(node.classes.keys()) != [k["name"] for k in exp_classes]:
        raise Violation("nested_classes", "%s: classes %r expected %r" % (what, list(node.classes.keys()), [k["name"] for k in exp_classes]))
    for k in exp_classes:
        sub = node.classes[k["name"]]
        if sub.parent is not node:
            raise Violation("nested_parent", "%s.%s: parent is not the declaring class" % (what, k["name"]))
        check_class(k, sub, path + [k["name"]], shared)


def exp_imports_add(exp, it):
    if it["form"] == "qualified":
        exp[it["path"].split(".")[-1]] = ("ref", it["path"])
    elif it["form"] == "renamed":
        exp[it["short"]] = ("clause", [it["path"]], it["short"], False)
    elif it["form"] == "star":
        if "*" in exp:
            exp["*"] = ("clause", exp["*"][1] + [it["path"]], "", True)
        else:
            exp["*"] = ("clause", [it["path"]], "", True)
    else:
        for n in it["names"]:
            exp[n] = ("ref", it["path"] + "." + n)


def eq_sig(g):
    from pymoca import ast

    if isinstance(g, ast.Equation):
        return ("simple", g.left.name, g.right.value)
    if isinstance(g, ast.AssignmentStatement):
        return ("assign", g.left[0].name, g.right.value)
    if isinstance(g, ast.ForEquation):
        e = g.equations[0]
        return ("for", e.left.name, e.right.value)
    if isinstance(g, ast.IfEquation):
        e = g.blocks[0][0]
        return ("if", e.left.name, e.right.value)
    return (type(g).__name__, None, None)


def count_features(c):
    multi = 0
    nsec = len(c["sections"])
    for s in c["sections"]:
        if s["s"] == "elems":
            for it in s["items"]:
                if it["i"] == "comp" and len(it["decls"]) > 1:
                    multi += 1
    return multi, nsec


def check_case(ctx, case):
    from pymoca import parser

    text = case_text(case)
    if case["dup"]:
        try:
            tree = parser.parse(text, bypass_cache=True)
        except Exception:  # noqa: BLE001 - "rejected" = raises or returns no tree
            return dict(nontrivial=True, labels=["duplicate_rejected_by_exception"], sample={"text": text})
        if tree is None:
            return dict(nontrivial=True, labels=["duplicate_rejected_none"], sample={"text": text})
        raise Violation("duplicate_accepted", "component %s declared twice but the class parsed" % case["dup"])
    tree = guarded(parser.parse, text, bypass_cache=True, where="parse")
    if tree is None:
        raise Violation("valid_text_rejected", "parse returned None for:\n" + text)
    cls = case["cls"]
    if list(tree.classes.keys()) != [cls["name"]]:
        raise Violation("top_classes", "top-level classes %r" % list(tree.classes.keys()))
    check_class(cls, tree.classes[cls["name"]], [cls["name"]], {})
    multi, nsec = count_features(cls)
    labels = ["sections:%d" % min(nsec, 6)]
    vis_seq = [s["vis"] for s in cls["sections"] if s["s"] == "elems" and s["vis"]]
    if len(vis_seq) != len(set(vis_seq)):
        labels.append("repeated_visibility_section")
    if multi:
        labels.append("multi_declarator")
    for s in cls["sections"]:
        if s["s"] == "elems":
            for it in s["items"]:
                labels.append("item:" + it["i"])
                if it["i"] == "comp" and it["cdims"] and any(d["ddims"] for d in it["decls"]):
                    labels.append("dims:both")
    return dict(nontrivial=multi >= 1 and nsec >= 2, labels=sorted(set(labels)), sample={"text": text})


def shard(ctx):
    drive(ctx, case_strategy(), check_case, ctx.share(1500, 100000))


def replay(ctx, case):
    check_case(ctx, case)


MANIFEST = dict(
    text="Grammar-directed generation of class texts from an abstract description; the parsed class "
    "is compared field by field with the description (names, order, types, prefix keyword lists, "
    "dimensions, visibility per section, comments, modifications, section contents in order, "
    "nested classes/extends/imports on the declaring class, no mutable object shared between "
    "symbols; duplicates rejected).  Sampling over the statement's list of constructs.",
    note="Trusts the harness printer; dimension order follows MLS 10.1; the unlabelled section's visibility may be private or public.",
    technique="property-based round-trip testing: abstract class -> text -> parse -> structural comparison",
)
