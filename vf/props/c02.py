"""C02 - Concurrent parses sharing a cache folder all succeed.

D1  harness-owned schedules: 2-3 parse() calls run in real threads under a
    cooperative scheduler.  `pymoca.parser.sqlite3` / `pymoca.parser.os` are
    replaced by shims; connect / execute / commit / close / os.remove are yield
    points (the thread parks *before* the operation; the scheduler releases
    the next thread according to a Hypothesis-drawn list of ints).  SQLite's
    real locking and busy handler stay in force: a released thread that stays
    inside one sqlite call for BLOCK_S is "blocked in sqlite" and the scheduler
    releases another runnable thread, so every execution is a legal one.
D2  free-running stress: k forked OS processes released together (pipe
    barrier) on one fresh folder.

Oracle (both): every call returns the uncached tree, no exception, the file
exists afterwards and passes integrity_check from a fresh connection, and no
call unlinks the database file while a connection is open on it.
"""
import gc
import json
import os as _os
import sqlite3 as _sqlite3
import sys
import threading
import time
import weakref
from pathlib import Path

import hypothesis
from hypothesis import given, strategies as st

from vf import env
from vf.canon import tree_canon
from vf.core import Violation, hsettings, pymoca_frame

ID = "C02"
LEVEL = "exploration"
SHARDS = {"quick": 16, "thorough": 16}
SOFT_BUDGET_S = {"quick": 45, "thorough": 800}
RULE = (
    "D1: (initial state in {absent, existing, existing+initialised in this process, wrong "
    "layout, corrupt file with thread 0 already recovering}, 2-3 threads, same/different "
    "texts, always_update_last_hit, optional stalled thread, list of <=80 ints) -> the harness scheduler releases one "
    "parked thread per step at SQL-statement granularity (connect/execute/commit/close/"
    "os.remove), the int choosing among parked threads, then round-robin; non-trivial = at "
    "least one context switch while some thread has an open transaction (BEGIN executed, no "
    "COMMIT yet); distinct = distinct sequence of (thread, statement label).  D2: k in "
    "{2,4,8,16} processes released together on one fresh folder, 1-3 texts each; non-trivial "
    "= at least two calls of different processes overlapped in time (timestamps used for this "
    "classification only); distinct = distinct abstract round."
)
ASSUMPTIONS = [
    "interleavings are explored at SQL-statement granularity for <=3 calls; finer interleavings "
    "inside SQLite and >3 participants are only sampled by the free-running stress",
    "a released thread that stays inside one sqlite call for 200 ms is taken to be waiting on "
    "a lock; a wrong guess only lets two threads run truly concurrently (still a legal execution)",
    "'database is locked' raised by a statement that waited >= 1 s (busy timeout under load) is "
    "recorded as inconclusive; raised in < 1 s it is SQLite's immediate deadlock-avoidance BUSY "
    "and a violation (the only use of wall-clock in the oracle, fixed by the design)",
    "a call may be arbitrarily slow: in 'stall' cases one thread is not released while another "
    "waits on a lock, so the waiters run into the busy timeout; to keep this cheap the shim gives "
    "sqlite3.connect timeout=0.6 s instead of the default 5 s in those cases (time dilation only; "
    "the inconclusive threshold scales to 0.8 x that timeout)",
    "'small_cache' cases run the connections with PRAGMA cache_size=10 (set by the shim, as a SQLite "
    "build with a small default cache would): a writer inserting a 60 kB entry then spills and holds "
    "the EXCLUSIVE lock from its INSERT to its COMMIT, which is otherwise only reachable with "
    "entries above the default 2 MB cache",
    "unlinking the database file while any connection of a concurrent call - or the caller's own "
    "not yet closed connection - is open on it counts as 'deleting the database a call is using'",
    "a corrupt (non-sqlite) file is outside the statement's list of initial states; it is only "
    "generated with thread 0 run alone until it has replaced the file (others then arrive while "
    "the database is being created); two simultaneous recoveries are not generated",
    "threads share parse.initialized_dbs (reset at the start of every case); process-fresh "
    "state is covered by D2",
]

BLOCK_S = 0.2        # inside one sqlite call this long -> blocked on a lock
SETTLE_S = 0.35      # after a COMMIT/CLOSE wait this long for a blocked thread to wake up
CASE_TIMEOUT_S = 60.0
QUICK_LOCK_S = 1.0
STALL_TIMEOUT_S = 0.6  # busy timeout given to sqlite in cases with a stalled thread (time dilation)

TEXTS = [
    "model A\n  Real x(start=1);\n  parameter Real p = 2;\nequation\n  der(x) = -p * x;\nend A;\n",
    "model B\n  Real y;\n  input Real u;\nequation\n  y = 3 * u + 1;\nend B;\n",
    "package P\n  model C\n    Real z[3];\n  equation\n    z = {1, 2, 3};\n  end C;\nend P;\n",
    "model D\n  parameter Integer n = 2;\n  Real w;\nequation\n  w = if n > 1 then 1.0 else 2.0;\nend D;\n",
]
# a model whose pickled tree (about 60 kB) does not fit a 10-page cache: see `small_cache`
TEXTS.append("model Big\n" + "".join("  Real x%d(start=%d);\n" % (i, i) for i in range(120)) + "equation\n"
             + "".join("  der(x%d) = -x%d;\n" % (i, i) for i in range(120)) + "end Big;\n")
BIG = 4
STATES = ["absent", "existing", "warm", "wrong_layout", "corrupt"]

_expected = {}


def _parser():
    import pymoca.parser as p

    return p


def expected_canon(i):
    if i not in _expected:
        tree = _parser().parse(TEXTS[i], bypass_cache=True)
        if tree is None:
            raise env.HarnessError("harness text %d does not parse" % i)
        _expected[i] = tree_canon(tree)
    return _expected[i]


def stmt_label(sql):
    w = sql.replace("(", " ").replace(";", " ").split()
    head = w[0].upper() if w else "?"
    if head == "BEGIN":
        return "BEGIN IMMEDIATE" if len(w) > 1 and w[1].upper() in ("IMMEDIATE", "EXCLUSIVE") else "BEGIN"
    if head == "SELECT":
        return "SELECT " + (w[w.index("FROM") + 1] if "FROM" in w else "?")
    if head == "PRAGMA":
        return "PRAGMA " + w[1].lower().strip("'")
    if head == "INSERT":
        return " ".join(x.upper() for x in w[: w.index("INTO")]) + " " + w[w.index("INTO") + 1]
    if head in ("CREATE", "DROP"):
        return "%s TABLE %s" % (head, w[-1] if head == "DROP" else w[2])
    if head == "DELETE":
        return "DELETE " + w[2]
    if head == "UPDATE":
        return "UPDATE " + w[1]
    return head


def reset_parse_state():
    p = _parser()
    if hasattr(p.parse, "initialized_dbs"):
        del p.parse.initialized_dbs


def prepare_folder(ctx, state, precached, texts):
    """Fresh cache folder in the drawn initial state.  Built sequentially,
    before any concurrency starts."""
    p = _parser()
    env.pin_version()
    reset_parse_state()
    folder = Path(env.fresh_dir("c02"))
    db = folder / p.DEFAULT_MODEL_CACHE_DB
    if state in ("existing", "warm"):
        # sequential use of the code under test to get exactly its layout
        p.parse(TEXTS[3], model_cache_folder=folder)
        if precached:
            p.parse(TEXTS[texts[0]], model_cache_folder=folder)
        if state == "existing":
            reset_parse_state()
    elif state == "wrong_layout":
        c = _sqlite3.connect(str(db))
        c.execute("CREATE TABLE models (txt_hash TEXT, data BLOB, extra TEXT, PRIMARY KEY (txt_hash))")
        c.execute("INSERT INTO models VALUES ('x', x'00', 'y')")
        if precached:
            c.execute("CREATE TABLE metadata (k TEXT, value TEXT, PRIMARY KEY (k))")
            c.execute("INSERT INTO metadata VALUES ('created_at', '1')")
        c.commit()
        c.close()
    elif state == "corrupt":
        db.write_bytes(b"this is not a sqlite database, " * 40)
    elif state != "absent":
        raise env.HarnessError("unknown state %r" % (state,))
    return folder, db


# --------------------------------------------------------------------------
# D1: scheduler and shims
# --------------------------------------------------------------------------
class Sched:
    def __init__(self, n, schedule, solo0=False, stall=None):
        self.n = n
        self.schedule = list(schedule)
        self.stall = stall                 # this thread is never released while another is blocked
        self.small_cache = False
        self.k = 0
        self.lastlabel = [None] * n        # last operation each thread was released to perform
        self.cv = threading.Condition()
        self.state = ["new"] * n          # new / parked / running / done
        self.label = [None] * n           # operation the parked thread will perform next
        self.in_sql = [False] * n
        self.since = [0.0] * n
        self.blocked = [False] * n
        self.txn_open = [False] * n
        self.conns = [weakref.WeakSet() for _ in range(n)]   # open connection wrappers per thread (weak: a
        # connection dropped with the exception's frames is closed by refcount, as for a real caller)
        self.open_at_raise = 0
        self.go = [threading.Semaphore(0) for _ in range(n)]
        self.tls = threading.local()
        self.trace = []
        self.free_run = False
        self.solo0 = solo0                 # thread 0 alone until it replaced the file
        self.recovered = False
        self.switch_in_txn = 0
        self.blocked_episodes = 0
        self.settle_until = 0.0
        self.err = [None] * n              # (label, waited_s) of the failing sqlite call
        self.removals = []                 # (thread, [threads with a connection open], self_open)
        self.stuck = False

    # ---- called from worker threads ------------------------------------
    def me(self):
        return getattr(self.tls, "idx", None)

    def yield_point(self, i, label):
        if self.free_run:
            return
        with self.cv:
            self.state[i] = "parked"
            self.label[i] = label
            self.cv.notify_all()
        self.go[i].acquire()

    def real(self, i, label, fn, *a, **kw):
        with self.cv:
            self.in_sql[i] = True
            self.since[i] = time.monotonic()
        t0 = time.monotonic()
        try:
            return fn(*a, **kw)
        except BaseException:
            self.err[i] = (label, time.monotonic() - t0)
            raise
        finally:
            with self.cv:
                self.in_sql[i] = False
                if self.blocked[i]:
                    self.blocked[i] = False
                    self.settle_until = 0.0
                self.cv.notify_all()

    def finish(self, i):
        with self.cv:
            self.state[i] = "done"
            self.in_sql[i] = False
            self.blocked[i] = False
            self.cv.notify_all()

    # ---- scheduler (main thread) -----------------------------------------
    def abandon(self):
        self.free_run = True
        for g in self.go:
            g.release()

    def choose(self, parked, last):
        """Next thread to release (called with no thread running unblocked)."""
        cand = parked
        if self.stall is not None and any(self.blocked):
            cand = [i for i in parked if i != self.stall]
        if not cand:
            return None
        if self.solo0 and not self.recovered and self.state[0] != "done":
            # corrupt file: nobody else starts before thread 0 has replaced it (even when a slow
            # step of thread 0 was taken for a lock wait)
            return 0 if 0 in parked else None
        while self.k < len(self.schedule):
            e = self.schedule[self.k]
            if isinstance(e, int):
                self.k += 1
                return cand[e % len(cand)]
            # directive [t, label, previous label or None]: release thread t until it is parked
            # before `label` (having last performed `previous`), is blocked or done
            t, lab, prev = e
            if (t in cand and not (self.label[t] == lab and (prev is None or self.lastlabel[t] == prev))):
                return t
            self.k += 1
        nxt = [i for i in cand if last is None or i > last]
        return nxt[0] if nxt else cand[0]

    def run(self):
        deadline = time.monotonic() + CASE_TIMEOUT_S
        last = None
        last_label = None
        while True:
            with self.cv:
                if last_label in ("COMMIT", "CLOSE") and any(self.blocked):
                    self.settle_until = time.monotonic() + SETTLE_S
                last_label = None
                while True:
                    now = time.monotonic()
                    if all(s == "done" for s in self.state):
                        return
                    if now > deadline:
                        self.stuck = True
                        return
                    wait = 0.05
                    busy = False
                    for i in range(self.n):
                        if self.state[i] in ("running", "new") and not self.blocked[i]:
                            if self.state[i] == "running" and self.in_sql[i]:
                                rem = BLOCK_S - (now - self.since[i])
                                if rem <= 0:
                                    self.blocked[i] = True
                                    self.blocked_episodes += 1
                                    continue
                                wait = min(wait, rem)
                            busy = True
                    parked = [i for i in range(self.n) if self.state[i] == "parked"]
                    if not busy:
                        if any(self.blocked) and self.settle_until > now:
                            wait = min(wait, self.settle_until - now)
                        elif parked:
                            break
                    self.cv.wait(wait)
                pick = self.choose(parked, last)
                if pick is None:
                    # only the stalled thread is runnable: the blocked ones run into their timeout
                    self.cv.wait(0.05)
                    continue
                if last is not None and pick != last and any(self.txn_open):
                    self.switch_in_txn += 1
                last = pick
                last_label = self.label[pick]
                self.trace.append([pick, last_label])
                self.lastlabel[pick] = last_label
                self.state[pick] = "running"
                self.since[pick] = time.monotonic()
            self.go[pick].release()


class _Cursor:
    def __init__(self, conn, cur):
        self._c = conn
        self._cur = cur

    def execute(self, sql, *params):
        s, i = self._c._s, self._c._i
        label = stmt_label(sql)
        s.yield_point(i, label)
        r = s.real(i, label, self._cur.execute, sql, *params)
        if label.startswith("BEGIN"):
            s.txn_open[i] = True
        elif label in ("COMMIT", "ROLLBACK", "END"):
            s.txn_open[i] = False
        return self if r is self._cur else r

    def __getattr__(self, name):
        return getattr(self._cur, name)

    def __iter__(self):
        return iter(self._cur)


class _Conn:
    def __init__(self, sched, i, real, path):
        self._s = sched
        self._i = i
        self._real = real
        self._path = path

    def cursor(self, *a, **kw):
        return _Cursor(self, self._real.cursor(*a, **kw))

    def execute(self, sql, *params):
        return self.cursor().execute(sql, *params)

    def commit(self):
        s, i = self._s, self._i
        s.yield_point(i, "COMMIT")
        s.real(i, "COMMIT", self._real.commit)
        s.txn_open[i] = False

    def rollback(self):
        s, i = self._s, self._i
        s.yield_point(i, "ROLLBACK")
        s.real(i, "ROLLBACK", self._real.rollback)
        s.txn_open[i] = False

    def close(self):
        s, i = self._s, self._i
        s.yield_point(i, "CLOSE")
        s.real(i, "CLOSE", self._real.close)
        s.conns[i].discard(self)
        if not s.conns[i]:
            s.txn_open[i] = False

    def __enter__(self):
        return self

    def __exit__(self, et, ev, tb):
        if et is None:
            self.commit()
        else:
            self.rollback()
        return False

    def __getattr__(self, name):
        return getattr(self._real, name)


class _ModShim:
    """Stands in for a module: everything not overridden comes from the real one."""

    def __init__(self, real, **over):
        self.__dict__["_real_mod"] = real
        self.__dict__.update(over)

    def __getattr__(self, name):
        return getattr(self.__dict__["_real_mod"], name)


def make_shims(sched, db_path):
    db_real = _os.path.realpath(str(db_path))

    def connect(path, *a, **kw):
        i = sched.me()
        if i is None:
            return _sqlite3.connect(path, *a, **kw)
        sched.yield_point(i, "CONNECT")
        if sched.stall is not None:
            kw["timeout"] = STALL_TIMEOUT_S
        real = sched.real(i, "CONNECT", _sqlite3.connect, path, *a, **kw)
        if sched.small_cache:
            try:
                real.execute("PRAGMA cache_size=10")
            except _sqlite3.DatabaseError:
                pass  # not a database (corrupt state): the code under test will find out itself
        c = _Conn(sched, i, real, str(path))
        sched.conns[i].add(c)
        if sched.removals and sched.removals[-1][0] == i:
            sched.recovered = True
        return c

    def remove(path, *a, **kw):
        i = sched.me()
        if i is None:
            return _os.remove(path, *a, **kw)
        sched.yield_point(i, "REMOVE")
        if _os.path.realpath(str(path)) == db_real:
            others = [j for j in range(sched.n) if j != i and sched.conns[j]]
            sched.removals.append((i, others, bool(sched.conns[i])))
        t0 = time.monotonic()
        try:
            return _os.remove(path, *a, **kw)
        except BaseException:
            sched.err[i] = ("REMOVE", time.monotonic() - t0)
            raise

    return _ModShim(_sqlite3, connect=connect), _ModShim(_os, remove=remove, unlink=remove)


def classify_exception(mode, exc_type, msg, label, waited, quick_s=QUICK_LOCK_S):
    """-> ('discard', reason) | ('violation', signature)"""
    m = " ".join(str(msg).split())[:60]
    if exc_type == "OperationalError" and "locked" in m and waited is not None and waited >= quick_s:
        return "discard", "busy_timeout_under_load"
    quick = ""
    if exc_type == "OperationalError" and "locked" in m:
        quick = "[immediate]"
    return "violation", "%s:%s(%s)%s@%s" % (mode, exc_type, m, quick, label or "?")


def check_db_after(mode, db):
    if not db.exists():
        raise Violation("%s:db_file_missing_afterwards" % mode, "no database file after all calls returned")
    try:
        c = _sqlite3.connect(str(db), timeout=10.0)
        try:
            rows = c.execute("PRAGMA integrity_check").fetchall()
        finally:
            c.close()
    except _sqlite3.DatabaseError as e:
        raise Violation("%s:db_unreadable_afterwards:%s" % (mode, type(e).__name__), str(e))
    if rows != [("ok",)]:
        raise Violation("%s:integrity_check_failed_afterwards" % mode, repr(rows)[:200])


def run_d1(ctx, case):
    """Run one schedule.  Returns info dict; raises Violation."""
    p = _parser()
    state, n, texts = case["state"], int(case["n"]), [int(t) for t in case["texts"]]
    if len(texts) != n or state not in STATES:
        raise env.HarnessError("bad case %r" % (case,))
    want = [expected_canon(t) for t in texts]
    folder, db = prepare_folder(ctx, state, bool(case.get("precached")), texts)
    stall = case.get("stall")
    if stall is not None and not (isinstance(stall, int) and 0 <= stall < n):
        raise env.HarnessError("bad stall in %r" % (case,))
    sched = Sched(n, case["schedule"], solo0=(state == "corrupt"), stall=stall)
    sched.small_cache = bool(case.get("small_cache"))
    sq, osx = make_shims(sched, db)
    outcomes = [None] * n

    def body(i):
        sched.tls.idx = i
        try:
            sched.yield_point(i, "START")
            tree = p.parse(TEXTS[texts[i]], model_cache_folder=folder,
                           always_update_last_hit=bool(case.get("update_hit")))
            outcomes[i] = ("ok", tree_canon(tree) if tree is not None else None)
        except BaseException as e:  # noqa: BLE001 - classified below
            outcomes[i] = ("exc", type(e).__name__, str(e), pymoca_frame(e), e if pymoca_frame(e) == "?" else None)
            sched.open_at_raise += len(sched.conns[i])
            del e
        finally:
            sched.finish(i)

    threads = [threading.Thread(target=body, args=(i,), daemon=True, name="c02-%d" % i) for i in range(n)]
    old_sq, old_os = p.sqlite3, p.os
    p.sqlite3, p.os = sq, osx
    try:
        for t in threads:
            t.start()
        sched.run()
        if sched.stuck:
            sched.abandon()
        for t in threads:
            t.join(20.0)
    finally:
        p.sqlite3, p.os = old_sq, old_os
    alive = [t.name for t in threads if t.is_alive()]
    if alive or sched.stuck:
        sched.abandon()
        for t in threads:
            t.join(10.0)
        raise Violation("d1:call_did_not_return", "threads %r did not finish within %ss; trace tail %r"
                        % (alive, CASE_TIMEOUT_S, sched.trace[-6:]))
    gc.collect()
    ctx.extra["d1_connections_open_when_call_raised"] += sched.open_at_raise
    ctx.extra["d1_blocked_episodes"] += sched.blocked_episodes
    ctx.extra["d1_steps"] += len(sched.trace)

    trace = sched.trace
    info = dict(
        nontrivial=sched.switch_in_txn > 0,
        labels=["d1", "d1:state=" + state, "d1:threads=%d" % n,
                "d1:texts=" + ("same" if len(set(texts)) == 1 else "different")]
        + (["d1:lock_wait_seen"] if sched.blocked_episodes else [])
        + (["d1:stalled_thread"] if stall is not None else []),
        key={"mode": "d1", "state": state, "trace": trace},
    )
    problems = []
    inconclusive = 0
    for i, o in enumerate(outcomes):
        if o is None:
            raise env.HarnessError("thread %d left no outcome" % i)
        if o[0] == "exc":
            if o[3] == "?":
                raise o[4]  # no pymoca frame: harness bug
            label, waited = sched.err[i] if sched.err[i] else (None, None)
            kind, what = classify_exception("d1", o[1], o[2], label, waited,
                                            QUICK_LOCK_S if stall is None else 0.8 * STALL_TIMEOUT_S)
            if kind == "discard":
                inconclusive += 1
            else:
                problems.append(Violation(what, "thread %d: %s: %s (statement %s, waited %.2fs); trace tail %r"
                                          % (i, o[1], o[2][:200], label, waited or 0.0, trace[-8:])))
        elif o[1] != want[i]:
            problems.append(Violation("d1:tree_differs_from_uncached", "thread %d text %d" % (i, texts[i])))
    for who, others, self_open in sched.removals:
        if others:
            problems.append(Violation("d1:db_file_removed_while_other_call_connected",
                                      "thread %d unlinked the database while thread(s) %r had it open" % (who, others)))
        elif self_open:
            problems.append(Violation("d1:db_file_removed_while_own_connection_open",
                                      "thread %d unlinked the database without closing its connection" % who))
    try:
        check_db_after("d1", db)
    except Violation as v:
        problems.append(v)
    info["problems"] = problems
    info["inconclusive"] = inconclusive
    return info


def finish_case(ctx, case, info):
    """Common tail: record problems (each under its own signature) or the case."""
    for _ in range(info.get("inconclusive", 0)):
        ctx.discard("busy_timeout_under_load")
    if info["problems"]:
        ctx.evaluations += 1
        for v in info["problems"]:
            ctx.fail(v, case)
        return False
    ctx.record(info["key"], info["nontrivial"], info["labels"], sample=case)
    return True


def d1_case(ctx, case):
    if ctx.over_budget():
        return
    try:
        info = run_d1(ctx, case)
    except Violation as v:   # a call that never returned: the case was abandoned
        ctx.evaluations += 1
        ctx.fail(v, case)
        return
    finish_case(ctx, case, info)


@st.composite
def d1_strategy(draw):
    state = draw(st.sampled_from(STATES))
    n = draw(st.sampled_from([2, 2, 3]))
    same = draw(st.booleans())
    if same:
        texts = [draw(st.integers(0, 2))] * n
    else:
        texts = draw(st.permutations([0, 1, 2]))[:n]
    stall = draw(st.sampled_from([None, None, None, 0, 1]))
    small = stall is not None and draw(st.booleans())
    texts = list(texts)
    if small:
        texts[stall] = BIG
    return {
        "mode": "d1",
        "state": state,
        "n": n,
        "texts": texts,
        "precached": draw(st.booleans()),
        "update_hit": draw(st.booleans()),
        "stall": stall,
        "small_cache": small,
        "schedule": draw(st.lists(st.integers(0, 2), max_size=80)),
    }


def fixed_d1_cases(shard):
    """A few systematic schedules per shard (pure function of the shard number):
    strict alternation and 'thread 0 runs k steps first, then alternate'."""
    state = STATES[shard % len(STATES)]
    same = (shard // len(STATES)) % 2 == 0
    out = []
    for n, head in ((2, (0, 3, 7)[shard % 3]), (3, 5 + shard % 11)):
        texts = [shard % 3] * n if same else [(shard + j) % 3 for j in range(n)]
        sched = [0] * head + [j % n for j in range(1, 60)]
        out.append({"mode": "d1", "state": state, "n": n, "texts": texts, "precached": shard % 2 == 0,
                    "update_hit": shard % 4 < 2, "stall": None, "schedule": sched})
    if shard % 4 == 1:
        # a reader (thread 1) is slow between SELECT and COMMIT of its lookup, a writer's COMMIT
        # (thread 0) waits on it holding PENDING, and a first-use integrity check (thread 2)
        # meets that lock: both waiters run into the busy timeout
        out.append({"mode": "d1", "state": ("existing", "absent", "wrong_layout", "existing")[(shard // 4) % 4],
                    "n": 3, "texts": [0, 1, 2], "precached": False, "update_hit": False, "stall": 1,
                    "schedule": [[2, "PRAGMA integrity_check", None], [1, "COMMIT", "SELECT models"],
                                 [0, "<done>", None], [2, "<done>", None]]})
    if shard % 4 == 3:
        # a writer (thread 0) whose INSERT spilled the page cache holds the EXCLUSIVE lock until its
        # COMMIT and is slow to get there; a first-use integrity check (thread 1) waits on it in vain
        out.append({"mode": "d1", "state": ("existing", "absent", "wrong_layout", "existing")[(shard // 4) % 4],
                    "n": 2, "texts": [BIG, shard % 3], "precached": False, "update_hit": False, "stall": 0,
                    "small_cache": True,
                    "schedule": [[1, "PRAGMA integrity_check", None], [0, "COMMIT", "INSERT OR REPLACE models"],
                                 [1, "<done>", None]]})
    return out


# --------------------------------------------------------------------------
# D2: free-running processes
# --------------------------------------------------------------------------
class _TimedCursor:
    def __init__(self, cur, last):
        self._cur, self._last = cur, last

    def execute(self, sql, *params):
        r = _timed(self._last, stmt_label(sql), self._cur.execute, sql, *params)
        return self if r is self._cur else r

    def __getattr__(self, name):
        return getattr(self._cur, name)

    def __iter__(self):
        return iter(self._cur)


class _TimedConn:
    def __init__(self, real, last):
        self._real, self._last = real, last

    def cursor(self, *a, **kw):
        return _TimedCursor(self._real.cursor(*a, **kw), self._last)

    def execute(self, sql, *params):
        return self.cursor().execute(sql, *params)

    def commit(self):
        return _timed(self._last, "COMMIT", self._real.commit)

    def close(self):
        return _timed(self._last, "CLOSE", self._real.close)

    def __getattr__(self, name):
        return getattr(self._real, name)


def _timed(last, label, fn, *a, **kw):
    t0 = time.monotonic()
    try:
        return fn(*a, **kw)
    except BaseException:
        last["label"], last["waited"] = label, time.monotonic() - t0
        raise


def _d2_child(j, case, per, folder, ready_w, go_r, out_path):
    """Body of one forked process: free-running parse() calls; the shims only
    time the sqlite calls so that a failure can be attributed to a statement."""
    p = _parser()
    last = {"label": None, "waited": None}
    p.sqlite3 = _ModShim(_sqlite3, connect=lambda *a, **kw: _TimedConn(_timed(last, "CONNECT", _sqlite3.connect, *a, **kw), last))
    p.os = _ModShim(_os, remove=lambda *a, **kw: _timed(last, "REMOVE", _os.remove, *a, **kw))
    _os.write(ready_w, b"r")
    _os.read(go_r, 1)  # returns (EOF) when the parent closes the write end: all children at once
    out = []
    for t in per[j]:
        last["label"] = last["waited"] = None
        t0 = time.time()
        try:
            tree = p.parse(TEXTS[t], model_cache_folder=folder, always_update_last_hit=bool(case.get("update_hit")))
            rec = {"ok": True, "canon": tree_canon(tree) if tree is not None else None}
        except BaseException as e:  # noqa: BLE001 - classified by the parent
            rec = {"ok": False, "type": type(e).__name__, "msg": str(e), "label": last["label"],
                   "waited": last["waited"], "frame": pymoca_frame(e)}
        rec["t0"], rec["t1"] = t0, time.time()
        out.append(rec)
    tmp = str(out_path) + ".tmp"
    with open(tmp, "w") as f:
        json.dump(out, f)
    _os.replace(tmp, str(out_path))


def run_d2(ctx, case):
    """k forked OS processes (fork of this already set-up interpreter: pymoca is
    the one imported from $VERIF_REPO with the pinned version, no sqlite
    connection is open at fork time, parse.initialized_dbs is absent, i.e. the
    children are process-fresh with respect to the cache)."""
    k, state = int(case["k"]), case["state"]
    per = [[int(t) for t in ts] for ts in case["texts"]]
    if len(per) != k or state not in ("absent", "existing", "wrong_layout"):
        raise env.HarnessError("bad d2 case %r" % (case,))
    for ts in per:
        for t in ts:
            expected_canon(t)
    folder, db = prepare_folder(ctx, state, bool(case.get("precached")), per[0])
    reset_parse_state()
    gc.collect()
    if threading.active_count() != 1:
        raise env.HarnessError("threads alive before fork: %r" % (threading.enumerate(),))
    ctl = Path(env.fresh_dir("c02ctl"))
    ready_r, ready_w = _os.pipe()
    go_r, go_w = _os.pipe()
    pids = []
    sys.stdout.flush()
    sys.stderr.flush()
    try:
        for j in range(k):
            pid = _os.fork()
            if pid == 0:
                rc = 1
                try:
                    _os.close(ready_r)
                    _os.close(go_w)
                    _d2_child(j, case, per, folder, ready_w, go_r, ctl / ("res%d.json" % j))
                    rc = 0
                except BaseException:  # noqa: BLE001 - reported through the exit status + file
                    import traceback

                    try:
                        (ctl / ("err%d.txt" % j)).write_text(traceback.format_exc())
                    except Exception:  # noqa: BLE001
                        pass
                finally:
                    _os._exit(rc)
            pids.append(pid)
        _os.close(ready_w)
        ready_w = None
        _os.close(go_r)
        go_r = None
        got = 0
        while got < k:
            chunk = _os.read(ready_r, k)
            if not chunk:
                raise env.HarnessError("a d2 child died before the barrier")
            got += len(chunk)
        _os.close(go_w)   # release everybody
        go_w = None
        deadline = time.monotonic() + 180
        pending = dict((pid, j) for j, pid in enumerate(pids))
        status = {}
        while pending and time.monotonic() < deadline:
            for pid in list(pending):
                done, st_ = _os.waitpid(pid, _os.WNOHANG)
                if done:
                    status[pending.pop(pid)] = st_
            if pending:
                time.sleep(0.01)
        if pending:
            raise Violation("d2:call_did_not_return", "%d of %d processes still running after 180 s" % (len(pending), k))
    finally:
        for fd in (ready_r, ready_w, go_r, go_w):
            if fd is not None:
                try:
                    _os.close(fd)
                except OSError:
                    pass
        for pid in pids:
            try:
                if _os.waitpid(pid, _os.WNOHANG)[0] == 0:
                    _os.kill(pid, 9)
                    _os.waitpid(pid, 0)
            except ChildProcessError:
                pass
    results = []
    for j in range(k):
        f = ctl / ("res%d.json" % j)
        if status.get(j) != 0 or not f.exists():
            e = ctl / ("err%d.txt" % j)
            raise env.HarnessError("d2 child %d failed (status %r): %s" % (j, status.get(j), e.read_text()[-1500:] if e.exists() else "?"))
        results.append(json.loads(f.read_text()))
    problems, inconclusive = [], 0
    spans = []
    for j, recs in enumerate(results):
        for c, rec in enumerate(recs):
            spans.append((rec["t0"], rec["t1"], j))
            if rec["ok"]:
                if rec["canon"] != expected_canon(per[j][c]):
                    problems.append(Violation("d2:tree_differs_from_uncached", "process %d call %d" % (j, c)))
                continue
            if rec["frame"] == "?":
                raise env.HarnessError("d2 child exception outside pymoca: %s %s" % (rec["type"], rec["msg"]))
            kind, what = classify_exception("d2", rec["type"], rec["msg"], rec["label"], rec["waited"])
            if kind == "discard":
                inconclusive += 1
            else:
                problems.append(Violation(what, "k=%d state=%s process %d call %d: %s: %s (statement %s, waited %.2fs)"
                                          % (k, state, j, c, rec["type"], rec["msg"][:200], rec["label"], rec["waited"] or 0.0)))
    try:
        check_db_after("d2", db)
    except Violation as v:
        problems.append(v)
    overlap = any(a[2] != b[2] and a[0] < b[1] and b[0] < a[1] for x, a in enumerate(spans) for b in spans[x + 1:])
    ctx.extra["d2_calls"] += len(spans)
    ctx.extra["d2_processes"] += k
    return dict(nontrivial=overlap, labels=["d2", "d2:k=%d" % k, "d2:state=" + state] + (["d2:overlap"] if overlap else []),
                key=case, problems=problems, inconclusive=inconclusive)


def d2_case(ctx, case):
    if ctx.over_budget():
        return
    try:
        info = run_d2(ctx, case)
    except Violation as v:
        ctx.evaluations += 1
        ctx.fail(v, case)
        return
    finish_case(ctx, case, info)


@st.composite
def d2_strategy(draw, ks=(2, 4, 8, 16), states=("absent", "existing", "wrong_layout"), max_texts=3):
    k = draw(st.sampled_from(list(ks)))
    texts = [draw(st.lists(st.integers(0, 2), min_size=1, max_size=max_texts)) for _ in range(k)]
    return {"mode": "d2", "k": k, "state": draw(st.sampled_from(list(states))),
            "texts": texts, "precached": draw(st.booleans()), "update_hit": draw(st.booleans())}


def hyp_loop(ctx, strategy, fn, n, skip_first=False):
    """n Hypothesis-drawn cases through fn(ctx, case); fn records by itself
    (several violations per case, distinctness keyed on the executed trace).
    skip_first drops Hypothesis' first example, which is always the minimal one."""
    if n <= 0:
        return
    seen = {"i": 0}

    @hypothesis.seed(ctx.hseed)
    @hsettings(n + (1 if skip_first else 0))
    @given(strategy)
    def run(case):
        seen["i"] += 1
        if skip_first and seen["i"] == 1:
            return
        fn(ctx, case)

    run()


# --------------------------------------------------------------------------
def shard(ctx):
    # D2 (few rounds, many processes).  quick: five rounds in total, one on each of shards 0..4,
    # with k and the initial state fixed per shard so that every k and state occurs.
    if ctx.tier == "quick":
        if ctx.shard < 5:
            k = (2, 4, 8, 16, 4)[ctx.shard]
            state = ("absent", "existing", "wrong_layout", "absent", "wrong_layout")[ctx.shard]
            hyp_loop(ctx, d2_strategy(ks=(k,), states=(state,), max_texts=2), d2_case, 1, skip_first=True)
    else:
        hyp_loop(ctx, d2_strategy(), d2_case, ctx.share(0, 200), skip_first=True)
    for case in fixed_d1_cases(ctx.shard):
        d1_case(ctx, case)
    hyp_loop(ctx, d1_strategy(), d1_case, ctx.share(16 * 3, 1500))


def replay(ctx, case):
    info = run_d2(ctx, case) if case.get("mode") == "d2" else run_d1(ctx, case)
    if info["problems"]:
        raise info["problems"][0]


MANIFEST = dict(
    text="Schedule exploration: 2-3 parse() calls on one cache folder run as real threads under a "
    "harness-owned scheduler that interleaves them at every SQL statement (connect, execute, commit, "
    "close, os.remove) following Hypothesis-drawn schedules, from five initial database states, with "
    "SQLite's real locking in force; plus free-running rounds of up to 16 processes released together. "
    "Every call must return the uncached tree without raising, the database must exist and pass "
    "integrity_check afterwards and must never be unlinked under an open connection.  Sampled, not "
    "exhaustive: a green run bounds the explored schedules given in the evidence.",
    note="Trusts SQLite's own locking, the harness scheduler/shims (about 200 lines), pickle round-trip of "
    "trees for the process results, and the 1 s threshold separating immediate BUSY from busy-timeout.",
    technique="deterministic schedule exploration (cooperative scheduler at SQL-statement yield points, "
    "Hypothesis-drawn) + multi-process stress",
)
