"""C09 - Connections produce exactly the Modelica connection-set equations.

A generated hierarchy of models with connectors and connect clauses is printed,
parsed and flattened by pymoca.  The flat equations (linear, homogeneous) are
turned into coefficient rows by evaluating lhs-rhs with R-ast at unit vectors.
The reference R-conn (below, no pymoca code) builds the connection sets of the
abstract case with a union-find over (flat connector name, inside|outside)
elements and writes down what the statement demands: equal potentials inside a
set, sum(sign * flow) = 0 per set and flow variable (inside +, outside -), zero
for every flow variable of a connector that occurs in no connect clause.  Both
row spaces must be equal (exact rational arithmetic), in both directions."""
from fractions import Fraction

from hypothesis import strategies as st

from vf.core import Violation, drive, guarded
from vf.ref import asteval

ID = "C09"
LEVEL = "exploration"
RULE = (
    "1-2 connector classes (1-3 potential, 1-2 flow Reals); 1-3 leaf component classes with 1-3 connectors "
    "(optionally connected to each other inside the leaf, optionally an internal linear equation defining a "
    "private variable); 0-2 mid-level models with own connectors, components and connects; a top model with "
    "2-4 components and 0-2 own connectors.  Connects per model are drawn as pairs, chains, stars, cycles, "
    "duplicates (also reversed) and late merges of two existing sets, over inside and outside connectors of "
    "the same connector class, then sometimes permuted.  non-trivial = some connect merges two flow sets that "
    "each already have >= 2 members, or some flow set mixes inside and outside connectors; distinct = distinct case."
)
ASSUMPTIONS = [
    "no arrays of connectors, no expandable/stream/inner-outer, no parameters in connectors (outside the statement's quantifier)",
    "connect references are `c` (own connector: outside) or `comp.c` (inside); only connectors of the same class are connected",
    "a connector's two faces (inside/outside) are different elements for flow sums; its potentials are one variable",
    "'appears in no connection' is taken literally: a connector named in no connect clause at any level gets flow = 0; "
    "a connector connected only on one face gets no extra equation for the other face",
    "solution spaces are compared as row spaces of integer matrices; each flat equation is checked to be linear and homogeneous "
    "(evaluation at 0, at unit vectors and at one generic point)",
    "trusts the Modelica printer of this module, the 60-line reference R-conn and vf.ref.asteval",
]

POTS = ["v", "w", "u"]
FLOWS = ["i", "j"]


# --------------------------------------------------------------------------
# abstract case helpers
# --------------------------------------------------------------------------
def model_map(case):
    return {m["name"]: m for m in case["models"]}


def refs_of(case, m):
    """[(reference as written in the model, connector class index)]"""
    mm = model_map(case)
    out = [(c["name"], c["cls"]) for c in m["conns"]]
    for comp in m["comps"]:
        for c in mm[comp["cls"]]["conns"]:
            out.append((comp["name"] + "." + c["name"], c["cls"]))
    return out


def print_case(case):
    lines = []
    for c in case["connectors"]:
        lines.append("connector %s" % c["name"])
        for p in c["pots"]:
            lines.append("  Real %s;" % p)
        for f in c["flows"]:
            lines.append("  flow Real %s;" % f)
        lines.append("end %s;" % c["name"])
    for m in case["models"]:
        lines.append("model %s" % m["name"])
        for c in m["conns"]:
            lines.append("  %s %s;" % (case["connectors"][c["cls"]]["name"], c["name"]))
        for comp in m["comps"]:
            lines.append("  %s %s;" % (comp["cls"], comp["name"]))
        for q in m["ieqs"]:
            lines.append("  Real %s;" % q["x"])
        if m["ieqs"] or m["connects"]:
            lines.append("equation")
        for q in m["ieqs"]:
            rhs = " + ".join("(%d)*%s" % (k, r) for r, k in q["terms"])
            lines.append("  %s = %s;" % (q["x"], rhs))
        for a, b in m["connects"]:
            lines.append("  connect(%s, %s);" % (a, b))
        lines.append("end %s;" % m["name"])
    return "\n".join(lines) + "\n"


# --------------------------------------------------------------------------
# R-conn: the reference (works on the abstract case only)
# --------------------------------------------------------------------------
class UF:
    def __init__(self):
        self.p = {}
        self.size = {}

    def find(self, x):
        if x not in self.p:
            self.p[x] = x
            self.size[x] = 1
        while self.p[x] != x:
            self.p[x] = self.p[self.p[x]]
            x = self.p[x]
        return x

    def union(self, a, b):
        """-> (merged?, size of a's set before, size of b's set before)"""
        ra, rb = self.find(a), self.find(b)
        if ra == rb:
            return False, self.size[ra], self.size[ra]
        sa, sb = self.size[ra], self.size[rb]
        self.p[rb] = ra
        self.size[ra] = sa + sb
        return True, sa, sb


def r_conn(case):
    """-> dict(vars=[flat Real names], connectors={flat connector name: class index},
    rows=[(kind, {var: coef})], stats)"""
    mm = model_map(case)
    ccls = case["connectors"]
    connectors, variables, rows = {}, [], []
    per_instance = []  # [(instance path, [(elemL, elemR)])]; elem = (flat connector name, inside?)

    def inst(mname, prefix):
        m = mm[mname]
        for c in m["conns"]:
            connectors[prefix + c["name"]] = c["cls"]
            for v in ccls[c["cls"]]["pots"] + ccls[c["cls"]]["flows"]:
                variables.append(prefix + c["name"] + "." + v)
        for comp in m["comps"]:
            inst(comp["cls"], prefix + comp["name"] + ".")
        for q in m["ieqs"]:
            variables.append(prefix + q["x"])
            row = {prefix + q["x"]: Fraction(1)}
            for r, k in q["terms"]:
                row[prefix + r] = row.get(prefix + r, 0) - Fraction(k)
            rows.append(("internal", {n: k for n, k in row.items() if k != 0}))
        per_instance.append((prefix, [((prefix + a, "." in a), (prefix + b, "." in b)) for a, b in m["connects"]]))

    inst(case["top"], "")
    uf = UF()
    stats = dict(late_merge=0, redundant=0, merges=0)
    for _, clauses in per_instance:
        for ea, eb in clauses:
            merged, sa, sb = uf.union(ea, eb)
            if not merged:
                stats["redundant"] += 1
            else:
                stats["merges"] += 1
                if sa >= 2 and sb >= 2:
                    stats["late_merge"] += 1
    sets = {}
    for e in list(uf.p):
        sets.setdefault(uf.find(e), []).append(e)
    stats["sets"] = len(sets)
    stats["mixed_sets"] = 0
    stats["max_set"] = max([len(s) for s in sets.values()] or [0])
    connected = set()
    for members in sets.values():
        members.sort()
        cls = ccls[connectors[members[0][0]]]
        faces = {inside for _, inside in members}
        if len(faces) == 2:
            stats["mixed_sets"] += 1
        names = sorted({n for n, _ in members})
        connected.update(names)
        for p in cls["pots"]:
            for n in names[1:]:
                rows.append(("potential", {names[0] + "." + p: Fraction(1), n + "." + p: Fraction(-1)}))
        for f in cls["flows"]:
            row = {}
            for n, inside in members:
                row[n + "." + f] = row.get(n + "." + f, 0) + (1 if inside else -1)
            rows.append(("flow", {k: Fraction(v) for k, v in row.items() if v != 0}))
    stats["unconnected"] = 0
    for n, k in connectors.items():
        if n not in connected:
            stats["unconnected"] += 1
            for f in ccls[k]["flows"]:
                rows.append(("zero_flow", {n + "." + f: Fraction(1)}))
    return dict(vars=variables, connectors=connectors, rows=rows, stats=stats)


# --------------------------------------------------------------------------
# exact sparse linear algebra
# --------------------------------------------------------------------------
def reduce_row(basis, row):
    """Reduce a sparse row by an echelon basis {pivot column: row with pivot 1
    and no smaller column}; the remainder is {} iff row is in the span."""
    row = dict(row)
    while row:
        c = min(row)
        b = basis.get(c)
        if b is None:
            return row
        k = row[c]
        for j, v in b.items():
            nv = row.get(j, 0) - k * v
            if nv == 0:
                row.pop(j, None)
            else:
                row[j] = nv
    return row


def echelon(rows):
    basis = {}
    for row in rows:
        r = reduce_row(basis, row)
        if r:
            c = min(r)
            k = r[c]
            basis[c] = {j: v / k for j, v in r.items()}
    return basis


# --------------------------------------------------------------------------
# coefficient rows of pymoca's flat equations
# --------------------------------------------------------------------------
def names_in(node, out):
    from pymoca import ast

    if isinstance(node, ast.ComponentRef):
        out.append(asteval.ref_name(node))
    elif isinstance(node, ast.Symbol):
        out.append(node.name)
    elif isinstance(node, ast.Expression):
        for a in node.operands:
            names_in(a, out)
    elif isinstance(node, (list, tuple)):
        for a in node:
            names_in(a, out)
    return out


def impl_rows(fc, variables, text):
    from pymoca import ast

    env = {v: 0 for v in variables}
    generic = {v: k + 2 for k, v in enumerate(variables)}
    rows = []
    for q in fc.equations:
        if not isinstance(q, ast.Equation):
            raise Violation("non_equation_in_flat_class:" + type(q).__name__, "%r\n%s" % (q, text))
        used = sorted(set(names_in([q.left, q.right], [])))
        unknown = [n for n in used if n not in env]
        if unknown:
            raise Violation("equation_over_unknown_variable", "%r in flat equation; variables %r\n%s" % (unknown, variables, text))

        def resid(e):
            return Fraction(asteval.evaluate(q.left, e)) - Fraction(asteval.evaluate(q.right, e))

        if resid(env) != 0:
            raise Violation("inhomogeneous_equation", "equation over %r has residual %s at 0\n%s" % (used, resid(env), text))
        row = {}
        for n in used:
            env[n] = 1
            k = resid(env)
            env[n] = 0
            if k != 0:
                row[n] = k
        if resid(generic) != sum(k * generic[n] for n, k in row.items()):
            raise Violation("nonlinear_equation", "equation over %r is not linear\n%s" % (used, text))
        rows.append(row)
    return rows


def row_str(row):
    return " ".join("%+d*%s" % (k, n) if k.denominator == 1 else "%s*%s" % (k, n) for n, k in sorted(row.items())) + " = 0"


def row_class(row, flow_vars):
    fl = [n in flow_vars for n in row]
    return "flow" if all(fl) else ("potential" if not any(fl) else "mixed")


# --------------------------------------------------------------------------
# the check
# --------------------------------------------------------------------------
def check_case(ctx, case):
    from pymoca import ast, parser, tree

    text = print_case(case)
    ref = r_conn(case)
    t = guarded(parser.parse, text, bypass_cache=True, where="parse")
    if t is None:
        raise Violation("valid_text_rejected", "parse returned None for:\n" + text)
    flat = guarded(tree.flatten, t, ast.ComponentRef.from_string(case["top"]), where="flatten")
    if case["top"] not in flat.classes:
        raise Violation("flat_class_missing", "classes %r" % list(flat.classes))
    fc = flat.classes[case["top"]]

    # variable sets: every Real of every connector is a flat symbol; the connector symbols are stripped
    got, exp = set(fc.symbols), set(ref["vars"])
    left = sorted(n for n in got if n in ref["connectors"] or hasattr(fc.symbols[n], "__connector_type"))
    if left:
        raise Violation("connector_symbol_not_stripped", "%r\n%s" % (left, text))
    if got != exp:
        raise Violation("flat_variables", "extra %r missing %r\n%s" % (sorted(got - exp), sorted(exp - got), text))
    flow_vars = {n + "." + f for n, k in ref["connectors"].items() for f in case["connectors"][k]["flows"]}
    for n in exp:
        if ("flow" in fc.symbols[n].prefixes) != (n in flow_vars):
            raise Violation("flow_prefix", "%s prefixes %r\n%s" % (n, fc.symbols[n].prefixes, text))

    index = {v: k for k, v in enumerate(ref["vars"])}
    a_impl = [{index[n]: k for n, k in row.items()} for row in impl_rows(fc, ref["vars"], text)]
    a_ref = [(kind, {index[n]: k for n, k in row.items()}) for kind, row in ref["rows"]]
    names = ref["vars"]
    b_ref = echelon(r for _, r in a_ref)
    b_impl = echelon(a_impl)
    ranks = (len(b_ref), len(b_impl), len(echelon(list(b_ref.values()) + a_impl)))
    # nothing missing: every reference constraint follows from the flat equations
    for kind, row in a_ref:
        if reduce_row(b_impl, row):
            raise Violation(
                "missing_constraint:" + kind,
                "not implied by the flat equations: %s  (ranks ref/impl/both %r)\n%s"
                % (row_str({names[j]: k for j, k in row.items()}), ranks, text),
            )
    # nothing extra: every flat equation follows from the connection semantics
    for row in a_impl:
        if reduce_row(b_ref, row):
            named = {names[j]: k for j, k in row.items()}
            raise Violation(
                "extra_constraint:" + row_class(named, flow_vars),
                "flat equation not implied by connection semantics: %s  (ranks ref/impl/both %r)\n%s" % (row_str(named), ranks, text),
            )
    if not (ranks[0] == ranks[1] == ranks[2]):  # cannot happen after the two loops; kept as the stated criterion
        raise Violation("rank_mismatch", "ranks ref/impl/both %r\n%s" % (ranks, text))

    s = ref["stats"]
    labels = labels_of(case, s)
    nontrivial = s["late_merge"] > 0 or s["mixed_sets"] > 0
    ctx.extra["equations"] += len(a_impl)
    ctx.extra["variables"] += len(names)
    ctx.extra["rank"] += ranks[0]
    return dict(nontrivial=nontrivial, labels=labels, sample={"text": text, "ranks": list(ranks)})


def labels_of(case, s):
    mm = model_map(case)
    labels = []
    kinds = set()
    for m in case["models"]:
        pairs = [tuple(p) for p in m["connects"]]
        deg = {}
        seen = set()
        uf = UF()
        for a, b in pairs:
            kinds.add(("inside" if "." in a else "outside") + "-" + ("inside" if "." in b else "outside"))
            if (a, b) in seen:
                labels.append("dup_same_order")
            elif (b, a) in seen:
                labels.append("dup_reversed")
            else:
                deg[a] = deg.get(a, 0) + 1
                deg[b] = deg.get(b, 0) + 1
                if not uf.union(a, b)[0]:
                    labels.append("cycle")
            seen.add((a, b))
        if any(d >= 3 for d in deg.values()):
            labels.append("star")
        if any(uf.size[uf.find(x)] >= 3 for x in list(uf.p)):
            labels.append("chain>=3")
    for k in kinds:
        labels.append({"outside-inside": "inside-outside"}.get(k, k))
    if s["late_merge"]:
        labels.append("late_merge")
    if s["mixed_sets"]:
        labels.append("mixed_inside_outside_set")
    if s["redundant"]:
        labels.append("redundant_connect")
    if s["unconnected"]:
        labels.append("unconnected_connector")
    if s["sets"] == 0:
        labels.append("no_connects")
    labels.append("max_set:%s" % (s["max_set"] if s["max_set"] < 6 else ">=6"))

    def depth(name):
        return 1 + max([depth(c["cls"]) for c in mm[name]["comps"]] or [0])

    labels.append("levels:%d" % depth(case["top"]))
    top = mm[case["top"]]
    labels.append("top_outside_connectors:%d" % len(top["conns"]))
    used = {case["top"]}
    todo = [case["top"]]
    while todo:
        for c in mm[todo.pop()]["comps"]:
            if c["cls"] not in used:
                used.add(c["cls"])
                todo.append(c["cls"])
    if any(mm[u]["comps"] and mm[u]["connects"] for u in used if u != case["top"]):
        labels.append("mid_level_connects")
    if any(not mm[u]["comps"] and mm[u]["connects"] for u in used if u != case["top"]):
        labels.append("leaf_outside_outside")
    if any(mm[u]["ieqs"] for u in used):
        labels.append("internal_equation")
    cls_used = {c["cls"] for u in used for c in mm[u]["conns"]}
    if len(cls_used) > 1:
        labels.append("two_connector_classes")
    if any(len(case["connectors"][k]["flows"]) > 1 for k in cls_used):
        labels.append("two_flows")
    if any(len(case["connectors"][k]["pots"]) > 1 for k in cls_used):
        labels.append("several_potentials")
    return sorted(set(labels))


# --------------------------------------------------------------------------
# generator
# --------------------------------------------------------------------------
def draw_connects(draw, groups, npat):
    """Connect clauses over `groups` (lists of references of one connector class)."""
    out = []
    groups = [g for g in groups if len(g) >= 2]
    if not groups:
        return out
    for _ in range(npat):
        g = draw(st.sampled_from(groups))
        perm = draw(st.permutations(g))
        n = len(perm)
        pat = draw(st.sampled_from(["pair", "chain", "star", "cycle", "merge", "merge", "dup", "dup"]))
        if pat == "pair" or n == 2:
            new = [[perm[0], perm[1]]]
        elif pat == "chain":
            k = draw(st.integers(3, min(n, 5)))
            new = [[perm[j], perm[j + 1]] for j in range(k - 1)]
        elif pat == "star":
            k = draw(st.integers(3, min(n, 5)))
            new = [[perm[0], perm[j]] if draw(st.booleans()) else [perm[j], perm[0]] for j in range(1, k)]
        elif pat == "cycle":
            k = draw(st.integers(3, min(n, 5)))
            new = [[perm[j], perm[(j + 1) % k]] for j in range(k)]
        elif pat == "merge" and n >= 4:
            ka = draw(st.integers(2, min(3, n - 2)))
            kb = draw(st.integers(2, min(3, n - ka)))
            sa, sb = perm[:ka], perm[ka:ka + kb]
            new = [[sa[j], sa[j + 1]] for j in range(ka - 1)] + [[sb[j], sb[j + 1]] for j in range(kb - 1)]
            join = [draw(st.sampled_from(sa)), draw(st.sampled_from(sb))]
            new.append(join if draw(st.booleans()) else join[::-1])
        else:  # dup (or merge in a small group): repeat an existing connect, same order or reversed
            base = draw(st.sampled_from(out)) if out else [perm[0], perm[1]]
            new = ([] if out else [list(base)]) + [list(base) if draw(st.booleans()) else list(base[::-1])]
        out += new
    if draw(st.integers(0, 3)) == 0:
        out = draw(st.permutations(out))
    return [list(p) for p in out]


@st.composite
def case_strategy(draw):
    ncls = draw(st.sampled_from([1, 1, 2]))
    connectors = [
        {"name": "C%d" % k, "pots": POTS[: draw(st.integers(1, 3))], "flows": FLOWS[: draw(st.integers(1, 2))]} for k in range(ncls)
    ]
    case = {"connectors": connectors, "models": [], "top": "Top"}
    main_cls = draw(st.integers(0, ncls - 1))  # most connectors are of one class so that groups are large

    def conns(lo, hi):
        return [
            {"name": "p%d" % j, "cls": main_cls if draw(st.integers(0, 3)) else draw(st.integers(0, ncls - 1))}
            for j in range(draw(st.integers(lo, hi)))
        ]

    def finish(m, npat):
        by_cls = {}
        for r, k in refs_of(case, m):
            by_cls.setdefault(k, []).append(r)
        m["connects"] = draw_connects(draw, [by_cls[k] for k in sorted(by_cls)], npat)
        if draw(st.integers(0, 3)) == 0:
            ccl = case["connectors"]
            own = [c["name"] + "." + v for c in m["conns"] for v in ccl[c["cls"]]["pots"] + ccl[c["cls"]]["flows"]]
            if own:
                for j in range(draw(st.integers(1, 2))):
                    terms = draw(st.lists(st.tuples(st.sampled_from(own), st.sampled_from([-3, -2, -1, 1, 2, 3])), min_size=1, max_size=3))
                    m["ieqs"].append({"x": "x%d" % j, "terms": [list(t) for t in terms]})
        case["models"].append(m)

    nleaf = draw(st.integers(1, 3))
    for k in range(nleaf):
        m = {"name": "L%d" % k, "conns": conns(1, 3), "comps": [], "ieqs": [], "connects": []}
        finish(m, draw(st.sampled_from([0, 0, 1])))
    nmid = draw(st.sampled_from([0, 1, 1, 1, 2]))
    for k in range(nmid):
        avail = [m["name"] for m in case["models"]]
        comps = [{"name": "s%d" % j, "cls": draw(st.sampled_from(avail))} for j in range(draw(st.integers(1, 3)))]
        m = {"name": "M%d" % k, "conns": conns(1, 3), "comps": comps, "ieqs": [], "connects": []}
        finish(m, draw(st.integers(1, 3)))
    avail = [m["name"] for m in case["models"]]
    pref = [n for n in avail if n.startswith("M")] or avail
    comps = [
        {"name": "c%d" % j, "cls": draw(st.sampled_from(pref if draw(st.booleans()) else avail))} for j in range(draw(st.integers(2, 4)))
    ]
    top = {"name": "Top", "conns": conns(0, 2), "comps": comps, "ieqs": [], "connects": []}
    finish(top, draw(st.integers(1, 4)))
    return case


def shard(ctx):
    drive(ctx, case_strategy(), check_case, ctx.share(500, 40000))


def replay(ctx, case):
    check_case(ctx, case)


MANIFEST = dict(
    text="Generated model hierarchies (up to 4 levels) with connect graphs containing chains, stars, cycles, duplicated "
    "and reversed connects, late merges of existing sets and inside/outside mixes are flattened by pymoca; the flat "
    "equations are converted to exact coefficient rows and their row space is compared, in both directions, with the "
    "row space of an independent reference that builds Modelica connection sets from the abstract case (equal "
    "potentials per set, signed flow sums, zero for flows of connectors named in no connect).  Also checks that "
    "exactly the connectors' Real variables remain as flat symbols.  Sampling, not exhaustive.",
    note="Trusts the 60-line union-find reference, the printer and the R-ast evaluator; flat equations are verified "
    "to be linear homogeneous before rows are compared; no arrays of connectors.",
    technique="property-based differential testing against a reference connection-set model; exact rational rank/row-space comparison",
)
