"""C06 - Deep copies of a tree are independent of the original.

A rule-based machine keeps up to four pymoca trees (the parsed library, deep
copies of it, copies of copies) and, for each, an abstract library model
(vf.gen.lib data) that is edited in lock-step with the tree: every edit made
through the AST API (add/remove class, symbol, equation, initial equation) is
applied to exactly one tree and to exactly that tree's model.

Oracle (differential, never through copy.deepcopy): flattening class C of tree
k must give the same result as flattening C in a FRESH parse of the text
printed from model k - same outcome kind (flat class / exception class), same
variables (type, prefixes, dimensions, attribute values) and the same multiset
of equations and initial equations.  This is "visible in that tree" (the
model has the edit) and "invisible in the other" (the other model does not)
at once.  Classes that exist only in another tree ("ghosts") must fail to
flatten exactly as they do in the fresh parse.  After every operation the
parent links of every class object must lead to the root of the tree that
holds it (the mechanism the lookups rely on).
"""
import copy as _copy
import json
import os
import pickle
import time

import hypothesis
from hypothesis import strategies as st
from hypothesis.stateful import RuleBasedStateMachine, initialize, rule, run_state_machine_as_test

from vf.core import Violation, as_violation, hsettings, pymoca_frame
from vf.gen import expr as X
from vf.gen import lib as L
from vf.ref import flat as F

ID = "C06"
LEVEL = "exploration"
RULE = (
    "rule-based machines: a generated library (models, extends, nested models, type aliases, "
    "packages, one-level component modifications) is parsed; each step applies one of deepcopy "
    "(of any tree: copies of copies; <= 4 trees), add_symbol (elementary or of a class type, "
    "optionally with an equation), remove_symbol, add/remove (initial) equation, add_class "
    "(+ component of it elsewhere; by Class.add_class or, inside packages, by Tree.extend with a "
    "'within' file in either direction), remove_class, restore_class (Class.add_class of copy.deepcopy of "
    "the class object of another tree that still has it) to a drawn tree, biased to classes that others "
    "reach through component types or extends, followed by flattening a drawn set of (tree, class) "
    "pairs (all / three / none) incl. classes that exist only in another tree.  non-trivial = after "
    "at least one deepcopy, an edit of class E in one tree is followed later by a flatten, in "
    "another tree or the same one, of a different class that reaches E through component types "
    "or extends; distinct = distinct library + operation sequence."
)
ASSUMPTIONS = [
    "the expected flat result of a tree is pymoca's own flatten of a fresh parse of the text printed "
    "from that tree's abstract model (flatten itself is C07's subject; parse/print round trip C04's)",
    "flat results are compared by variables (type, prefix set minus 'state', dimensions, attribute "
    "values) and multisets of canonical equations: Symbol.order counters differ between an edited "
    "tree and a re-parsed text",
    "raising the same exception class on both sides is agreement (DESIGN 1.3, histories)",
    "edits are those the statement names, made with Class.add_*/remove_* on objects built by the "
    "parser from one-class snippets; attribute assignment inside existing nodes is not an edit here",
    "removed symbols are not mentioned by any equation/modification, removed classes are not "
    "referenced by any remaining class (decided on the abstract model)",
]
SHARDS = {"quick": 16, "thorough": 16}
SOFT_BUDGET_S = {"quick": 150, "thorough": 2400}

MAX_TREES = 4
MAX_LEAVES = 60
EDITS = ("add_symbol", "remove_symbol", "add_equation", "remove_equation", "add_class", "remove_class", "restore_class")


def jcopy(x):
    return json.loads(json.dumps(x))


# --------------------------------------------------------------------------
# abstract model helpers (pure functions of the library data)
# --------------------------------------------------------------------------
def uses(c):
    """Classes that class dict c names as component type or base."""
    return [k["cls"] for k in c.get("comps", []) if k["cls"] not in L.BUILTIN] + [e["cls"] for e in c.get("extends", [])]


def reach(lib, cid):
    """Classes reachable from cid through component types / extends (cid excluded unless cyclic)."""
    out, todo = set(), list(uses(lib.cls(cid)))
    while todo:
        k = todo.pop()
        if k in out:
            continue
        out.add(k)
        todo += uses(lib.cls(k))
    return out


def reach_all(lib, cid):
    """Classes that pymoca instantiates when it instantiates cid: component types, bases AND
    nested classes (build_instance_tree builds every nested class of a class eagerly), so an
    instantiation cycle may also close through containment."""
    out, todo = set(), [cid]
    first = True
    while todo:
        k = todo.pop()
        if k in out:
            continue
        if not first:
            out.add(k)
        first = False
        c = lib.cls(k)
        todo += uses(c) + [ch["id"] for ch in lib.children(k)]
    return out


def comp_reach(lib, cid):
    """Classes instantiated (as component type, at any depth) when cid is instantiated."""
    out, todo, seen = set(), [cid], set()
    while todo:
        k = todo.pop()
        if k in seen:
            continue
        seen.add(k)
        c = lib.cls(k)
        for e in c.get("extends", []):
            todo.append(e["cls"])
        for comp in c.get("comps", []):
            if comp["cls"] not in L.BUILTIN:
                out.add(comp["cls"])
                out |= set(lib.bases(comp["cls"]))
                todo.append(comp["cls"])
    return out


def reached_by_others(lib):
    out = set()
    for c in lib.data["classes"]:
        out.update(uses(c))
    return out


def subtree(lib, cid):
    out = [cid]
    for ch in lib.children(cid):
        out += subtree(lib, ch["id"])
    return out


def mentioned(lib):
    """Every name segment some expression or modification path of the library mentions."""
    out = set()

    def ex(e):
        if e is None:
            return
        for n in X.walk(e):
            if n[0] in ("var", "idx"):
                out.update(n[1].split("."))

    def mods(ms):
        for m in ms or []:
            out.update(m["path"])
            ex(m["expr"])

    for c in lib.data["classes"]:
        mods(c.get("mods"))
        for e in c.get("extends", []):
            mods(e.get("mods"))
        for comp in c.get("comps", []):
            mods(comp.get("mods"))
            ex(comp.get("value"))
        for q in c.get("eqs", []) + c.get("ieqs", []):
            ex(q[0])
            ex(q[1])
    return out


def removable_symbols(lib, cid):
    m = mentioned(lib)
    return [comp["name"] for comp in lib.cls(cid).get("comps", []) if comp["name"] not in m]


def removable_classes(lib):
    out = []
    allc = lib.data["classes"]
    for c in allc:
        s = set(subtree(lib, c["id"]))
        if not any(k["kind"] == "model" for k in allc if k["id"] not in s):
            continue
        if any(u in s for k in allc if k["id"] not in s for u in uses(k)):
            continue
        out.append(c["id"])
    return out


def real_refs(lib, cid):
    leaves = [(p, lc) for p, lc, bt in L.leaf_paths(lib.data["classes"], cid) if bt == "Real"]
    refs = [L.ref_node(p, lc) for p, lc in leaves]
    plain = [["var", ".".join(p)] for p, lc in leaves
             if not lc.get("dims") and not ({"parameter", "constant", "input"} & set(lc.get("prefixes", [])))]
    return refs, plain


def max_leaves(lib):
    return max([len(L.leaf_paths(lib.data["classes"], m)) for m in lib.models()] or [0])


def usable_types(lib, cid, kinds=("model", "type")):
    """Classes that class cid may instantiate without creating a cycle."""
    chain = set([cid] + lib.ancestors(cid))
    out = []
    memo = {}
    for c in lib.data["classes"]:
        t = c["id"]
        if c["kind"] not in kinds or t in chain:
            continue
        if c["kind"] == "model" and (cid in reach_all(lib, t) or L.depth_of(lib.data["classes"], t, memo) >= 4):
            continue
        out.append(t)
    return out


def one_level_mod_targets(lib, t):
    """Real scalar elementary elements (own or inherited) of model class t."""
    out = []
    for comp in L._all_comps(lib.data["classes"], t):
        k = comp["cls"]
        base = k if k in L.BUILTIN else (lib.cls(k)["base"] if lib.cls(k)["kind"] == "type" else None)
        if base == "Real" and not comp.get("dims"):
            out.append(comp["name"])
    return out


# --------------------------------------------------------------------------
# observation
# --------------------------------------------------------------------------
def flat_summary(tree, path):
    """Canonical, order-insensitive summary of flatten(tree, path) or the exception class."""
    from pymoca import ast
    from pymoca import tree as T

    try:
        ft = T.flatten(tree, ast.ComponentRef.from_string(path))
    except Exception as e:  # noqa: BLE001 - outcome classification
        if pymoca_frame(e) == "?":
            raise
        return {"outcome": "raise:" + type(e).__name__}
    if path not in ft.classes:
        return {"outcome": "no_flat_class"}
    fc = ft.classes[path]
    vs = {}
    for name, sym in fc.symbols.items():
        tname = sym.type.name if isinstance(sym.type, ast.ComponentRef) else type(sym.type).__name__
        attrs = {a: F.canon_ast(getattr(sym, a)) for a in ("value", "start", "min", "max", "nominal", "fixed")}
        vs[name] = [sym.name, tname, sorted(set(sym.prefixes) - {"state"}), F.flat_dims(sym), attrs]
    return {
        "outcome": "flat",
        "variables": vs,
        "equations": sorted(F.canon_ast(q) for q in fc.equations),
        "initial_equations": sorted(F.canon_ast(q) for q in fc.initial_equations),
    }


def parse_text(text):
    from pymoca import parser

    t = parser.parse(text, bypass_cache=True)
    if t is None:
        raise Violation("valid_text_rejected", "parse returned None for:\n" + text)
    return t


class World:
    """The trees, their abstract models and the bookkeeping for labels; used by
    the machine and by replay (every operation is a concrete JSON list)."""

    def __init__(self, libdata):
        self.trees = []  # [tree, data, origin index or None, generation]
        self.ref_cache = {}
        self.ref_trees = {}
        self.labels = set()
        self.edits = []  # (tree index, class id) of edits made while >= 2 trees exist
        self.nt = False
        self.nops = 0
        data = jcopy(libdata)
        if any(m["path"] for c in data["classes"] for comp in c.get("comps", []) for m in comp.get("mods", [])):
            self.labels.add("library:component_modification")
        if any(c.get("extends") for c in data["classes"]):
            self.labels.add("library:extends")
        self.trees.append([parse_text(L.print_lib(L.Lib(data))), data, None, 0])

    # ---- access --------------------------------------------------------
    def lib(self, k):
        return L.Lib(self.trees[k][1])

    def locate(self, k, cid):
        obj = self.trees[k][0]
        for name in self.lib(k).path(cid):
            nxt = obj.classes.get(name)
            if nxt is None:
                raise Violation("ast_out_of_sync:class_missing", "tree %d has no class %s" % (k, ".".join(self.lib(k).path(cid))))
            obj = nxt
        return obj

    def snippet(self, body):
        return parse_text("model X__\n%send X__;\n" % body).classes["X__"]

    # ---- operations ----------------------------------------------------
    def apply(self, op):
        self.nops += 1
        kind = op[0]
        if kind == "flatten":
            for k, path in op[1]:
                self.observe(k, path)
            return
        if kind == "flatten_all":
            for k, path in self.all_targets():
                self.observe(k, path)
            return
        k = op[1]
        tree, data = self.trees[k][0], self.trees[k][1]
        self.labels.add(kind)
        if kind == "copy":
            new = _copy.deepcopy(tree)
            gen = self.trees[k][3] + 1
            self.trees.append([new, jcopy(data), k, gen])
            if gen >= 2:
                self.labels.add("copy_of_copy")
            if any(t[2] == k for t in self.trees[:-1]):
                self.labels.add("second_copy_of_same_tree")
            return
        cid = op[2]
        lib = self.lib(k)
        if len(self.trees) > 1 and kind in EDITS:
            self.edits.append((k, cid))
            self.labels.add("edit_on_%s_after_copy" % ("copy" if self.trees[k][2] is not None else "original"))
            if any(t[2] == k for t in self.trees):
                self.labels.add("edit_on_a_copied_tree")
        if kind == "add_symbol":
            _, _, _, comp, eq = op
            obj = self.locate(k, cid)
            body = "  " + L.print_comp(lib, cid, comp) + "\n"
            if eq is not None:
                body += "equation\n  " + L.print_eq(eq) + "\n"
            sn = self.snippet(body)
            obj.add_symbol(sn.symbols[comp["name"]])
            lib.cls(cid)["comps"].append(jcopy(comp))
            if eq is not None:
                obj.add_equation(sn.equations[0])
                lib.cls(cid)["eqs"].append(jcopy(eq))
            if comp["cls"] not in L.BUILTIN:
                self.labels.add("add_symbol:of_%s" % lib.cls(comp["cls"])["kind"])
                if comp.get("mods"):
                    self.labels.add("add_symbol:with_component_modification")
        elif kind == "remove_symbol":
            name = op[3]
            obj = self.locate(k, cid)
            names = [c["name"] for c in lib.cls(cid)["comps"]]
            if list(obj.symbols.keys()) != names:
                raise Violation("ast_out_of_sync:symbols", "tree %d class %s has symbols %r, expected %r" % (k, cid, list(obj.symbols), names))
            obj.remove_symbol(obj.symbols[name])
            lib.cls(cid)["comps"] = [c for c in lib.cls(cid)["comps"] if c["name"] != name]
        elif kind == "add_equation":
            _, _, _, eq, initial = op
            obj = self.locate(k, cid)
            if initial:
                sn = self.snippet("initial equation\n  " + L.print_eq(eq) + "\n")
                obj.add_initial_equation(sn.initial_equations[0])
                lib.cls(cid)["ieqs"].append(jcopy(eq))
                self.labels.add("add_initial_equation")
            else:
                sn = self.snippet("equation\n  " + L.print_eq(eq) + "\n")
                obj.add_equation(sn.equations[0])
                lib.cls(cid)["eqs"].append(jcopy(eq))
        elif kind == "remove_equation":
            _, _, _, index, initial = op
            obj = self.locate(k, cid)
            key = "ieqs" if initial else "eqs"
            got = obj.initial_equations if initial else obj.equations
            if len(got) != len(lib.cls(cid)[key]):
                raise Violation("ast_out_of_sync:equations", "tree %d class %s has %d %s, expected %d" % (k, cid, len(got), key, len(lib.cls(cid)[key])))
            want = F.canon_eq_abs(lib.cls(cid)[key][index])
            if F.canon_ast(got[index]) != want:
                raise Violation("ast_out_of_sync:equations", "tree %d class %s %s[%d] is %s, expected %s" % (k, cid, key, index, F.canon_ast(got[index]), want))
            if initial:
                obj.remove_initial_equation(got[index])
                self.labels.add("remove_initial_equation")
            else:
                obj.remove_equation(got[index])
            del lib.cls(cid)[key][index]
        elif kind == "add_class":
            # op[2] is the new class's id here
            cdef = op[3]
            parent = cdef["parent"]
            pobj = tree if parent is None else self.locate(k, parent)
            data["classes"].append(jcopy(cdef))
            lib = self.lib(k)
            via = op[4] if len(op) > 4 else "add_class"
            if via == "add_class":
                new = parse_text(L.print_class(lib, cdef["id"])).classes[cdef["id"]]
                pobj.add_class(new)
            else:
                # the class arrives as a second file "within P; model N .. end N;" merged with Tree.extend:
                # either into the tree, or the tree into the new file's tree (whose P is only a placeholder)
                other = parse_text("within %s;\n%s" % (".".join(lib.path(parent)), L.print_class(lib, cdef["id"])))
                if via == "extend":
                    tree.extend(other)
                else:
                    other.extend(tree)
                    self.trees[k][0] = other
                self.labels.add("add_class:via_%s" % via)
                if via == "extended_by" and any(t[2] == k for t in self.trees):
                    self.labels.add("add_class:via_extended_by_on_a_copied_tree")
            self.labels.add("add_class:in_%s" % ("root" if parent is None else lib.cls(parent)["kind"]))
            if cdef["extends"]:
                self.labels.add("add_class:extends_existing")
            if any(c["cls"] not in L.BUILTIN for c in cdef["comps"]):
                self.labels.add("add_class:component_of_existing")
        elif kind == "restore_class":
            # a class that exists in tree j only (removed here, or added there) is brought over as a deep copy
            # of the class object itself: copy.deepcopy(T_j.P.X) added with Class.add_class
            j = op[3]
            jlib = self.lib(j)
            src = self.locate(j, cid)
            parent = jlib.cls(cid)["parent"]
            pobj = tree if parent is None else self.locate(k, parent)
            new = _copy.deepcopy(src)
            pobj.add_class(new)
            ids = subtree(jlib, cid)
            data["classes"] += [jcopy(c) for c in self.trees[j][1]["classes"] if c["id"] in ids]
            self.labels.add("restore_class:%s" % ("was_removed_here" if op[4] else "added_in_other_tree"))
        elif kind == "remove_class":
            obj = self.locate(k, cid)
            parent = lib.cls(cid)["parent"]
            pobj = tree if parent is None else self.locate(k, parent)
            pobj.remove_class(obj)
            s = set(subtree(lib, cid))
            data["classes"][:] = [c for c in data["classes"] if c["id"] not in s]
            self.labels.add("remove_class:%s" % lib.cls(cid)["kind"])
        else:
            raise AssertionError(op)

    # ---- oracle --------------------------------------------------------
    def check_links(self):
        if os.environ.get("VF_C06_NO_LINK_CHECK") == "1":  # development aid: strength of the flatten oracle alone
            return
        roots = {id(t[0]): i for i, t in enumerate(self.trees)}
        for k, t in enumerate(self.trees):
            tree = t[0]
            if tree.parent is not None:
                raise Violation("parent_link:root_has_parent", "tree %d has a parent" % k)
            todo = [tree]
            while todo:
                obj = todo.pop()
                for name, c in obj.classes.items():
                    if c.parent is not obj:
                        r, hops = c.parent, 0
                        while r is not None and r.parent is not None and hops < 50:
                            r, hops = r.parent, hops + 1
                        if c.parent is None:
                            what = "none"
                        elif id(r) in roots and roots[id(r)] != k:
                            what = "leads_to_other_tree"
                        elif id(r) in roots:
                            what = "wrong_object_same_tree"
                        else:
                            what = "leads_to_unknown_root"
                        raise Violation(
                            "parent_link:" + what,
                            "tree %d (copy of %r): class %s: parent link does not point at the object holding it (%s%s)"
                            % (k, t[2], name, what, ", tree %d" % roots[id(r)] if id(r) in roots else ""),
                        )
                    todo.append(c)

    def all_targets(self, ghosts=True):
        out = []
        paths = []
        for k in range(len(self.trees)):
            lib = self.lib(k)
            paths.append({".".join(lib.path(m)) for m in lib.models()})
        union = set().union(*paths)
        for k in range(len(self.trees)):
            for p in sorted(paths[k]):
                out.append([k, p])
            if ghosts:
                for p in sorted(union - paths[k]):
                    out.append([k, p])
        return out

    def reference(self, k, path):
        text = L.print_lib(self.lib(k))
        key = (text, path)
        if key not in self.ref_cache:
            # one parse per text; every reference flatten gets its own tree object, rebuilt from a
            # pickle of the parse result (what pymoca's parse cache stores) - never via deepcopy
            if text not in self.ref_trees:
                if len(self.ref_trees) > 8:
                    self.ref_trees.clear()
                self.ref_trees[text] = pickle.dumps(parse_text(text))
            self.ref_cache[key] = flat_summary(pickle.loads(self.ref_trees[text]), path)
        return self.ref_cache[key], text

    def observe(self, k, path):
        got = flat_summary(self.trees[k][0], path)
        exp, text = self.reference(k, path)
        lib = self.lib(k)
        cid = path.split(".")[-1]
        ghost = cid not in lib.by_id
        self.labels.add("flatten")
        if ghost:
            self.labels.add("flatten:class_only_in_another_tree")
        if exp["outcome"] != "flat":
            self.labels.add("flatten:reference_%s" % ("raises" if not ghost else "raises_for_ghost"))
        if got != exp:
            what = "outcome"
            if got["outcome"] == exp["outcome"]:
                what = [w for w in ("variables", "equations", "initial_equations") if got[w] != exp[w]][0]
            if what == "outcome":
                diff = "got %s, expected %s" % (got["outcome"], exp["outcome"])
            elif what == "variables":
                g, e = got[what], exp[what]
                diff = "extra %r missing %r differing %r" % (
                    sorted(set(g) - set(e)), sorted(set(e) - set(g)), {n: (g[n], e[n]) for n in g if n in e and g[n] != e[n]})
            else:
                g, e = list(got[what]), list(exp[what])
                for q in list(g):
                    if q in e:
                        g.remove(q)
                        e.remove(q)
                diff = "unexpected %r missing %r" % (g, e)
            t = self.trees[k]
            raise Violation(
                "flatten_differs:" + what + (":ghost_class" if ghost else ""),
                "flatten(tree %d (copy of %r, generation %d), %s): %s\nexpected = flatten of a fresh parse of\n%s" % (k, t[2], t[3], path, diff, text),
            )
        if not ghost and len(self.trees) > 1:
            r = reach(lib, cid)
            for j, e in self.edits:
                if e in r and e != cid:
                    self.nt = True
                    self.labels.add("nt:dependent_flatten_on_%s_tree" % ("other" if j != k else "same"))
                    if j != k:
                        self.labels.add("nt:edited_%s_flattened_%s" % (
                            "copy" if self.trees[j][2] is not None else "original",
                            "copy" if self.trees[k][2] is not None else "original"))
                    if e in lib.bases(cid):
                        self.labels.add("nt:reaches_edited_via_extends")
                    if e in comp_reach(lib, cid):
                        self.labels.add("nt:reaches_edited_via_component")
                    if self.trees[k][3] >= 2 or self.trees[j][3] >= 2:
                        self.labels.add("nt:involves_copy_of_copy")


# --------------------------------------------------------------------------
# generation
# --------------------------------------------------------------------------
OPTS = dict(max_classes=6, max_comps=3, max_depth=3, foreign_bases=False)
START_LITS = [["real", "1.5"], ["int", 2], ["real", "0.25"], ["int", 4]]


@st.composite
def start_library(draw):
    data = draw(L.library(L.Opts(**OPTS)))
    lib = L.Lib(data)
    # one-level modifications on components of model type:  A a(x(start = 2))
    for c in data["classes"]:
        for comp in c.get("comps", []):
            t = comp["cls"]
            if t in L.BUILTIN or lib.cls(t)["kind"] != "model":
                continue
            targets = one_level_mod_targets(lib, t)
            if targets and draw(st.integers(0, 1)) == 0:
                x = draw(st.sampled_from(targets))
                comp["mods"].append({"path": [x], "attr": "start", "expr": draw(st.sampled_from(START_LITS))})
    return data


def pick_class(draw, lib, cands):
    """Bias towards classes that others reach via component types or extends."""
    hot = [c for c in cands if c in reached_by_others(lib)]
    if hot and draw(st.integers(0, 3)) != 0:
        return draw(st.sampled_from(hot))
    return draw(st.sampled_from(cands))


def draw_elementary(draw, name):
    comp = {"name": name, "cls": "Real", "prefixes": [], "dims": [], "mods": [], "value": None}
    v = draw(st.integers(0, 5))
    if v == 0:
        comp["prefixes"] = ["parameter"]
        comp["value"] = draw(st.sampled_from([["int", 2], ["real", "1.5"]]))
    elif v == 1:
        comp["mods"].append({"path": [], "attr": "start", "expr": draw(st.sampled_from(START_LITS))})
    elif v == 2:
        comp["dims"] = [2]
    return comp


def make_machine(ctx):
    class Machine(RuleBasedStateMachine):
        def __init__(self):
            super().__init__()
            self.world = None
            self.lib0 = None
            self.ops = []
            self.dead = False
            self.fresh = 0

        # ---- plumbing ----------------------------------------------------
        def case(self):
            return {"lib": self.lib0, "ops": self.ops}

        def _fail(self, e, where):
            self.dead = True
            v = as_violation(e, where)
            ctx.evaluations += 1
            ctx.fail(v, jcopy(self.case()), labels=sorted(self.world.labels) if self.world else ())

        def do(self, op):
            """Record and apply one concrete operation; False when the machine died."""
            self.ops.append(op)
            try:
                self.world.apply(op)
                self.world.check_links()
            except Exception as e:  # noqa: BLE001
                self._fail(e, op[0])
                return False
            return True

        def name(self, prefix):
            self.fresh += 1
            return "%s%d" % (prefix, self.fresh)

        def observe(self, data, edited=None):
            """Flatten a drawn set of (tree, class) pairs: everything (3/10), three pairs (6/10,
            preferring - in every tree - the edited class and the classes that reach it) or nothing."""
            if self.dead:
                return
            mode = data.draw(st.integers(0, 9))
            if mode == 0:
                return
            targets = self.world.all_targets()
            if mode >= 4 and len(targets) > 3:
                pool = targets
                if edited is not None and data.draw(st.integers(0, 3)) != 0:
                    hot = []
                    for k, path in targets:
                        lib = self.world.lib(k)
                        cid = path.split(".")[-1]
                        if cid in lib.by_id and edited in lib.by_id and (cid == edited or edited in reach(lib, cid)):
                            hot.append([k, path])
                    if hot:
                        pool = hot
                idx = data.draw(st.lists(st.integers(0, len(pool) - 1), min_size=3, max_size=3))
                targets = [pool[i] for i in sorted(set(idx))]
            self.do(["flatten", targets])

        def copy_step(self, data):
            # prefer copying the newest tree now and then: copies of copies
            n = len(self.world.trees)
            k = n - 1 if data.draw(st.integers(0, 2)) == 0 else data.draw(st.integers(0, n - 1))
            return self.do(["copy", k])

        def tree_index(self, data):
            """Tree to edit; now and then a deepcopy is interleaved first (Hypothesis switches
            whole rules off per run, and a history without a copy says nothing here)."""
            if len(self.world.trees) < MAX_TREES and data.draw(st.integers(0, 4)) == 0:
                if not self.copy_step(data):
                    return None
            n = len(self.world.trees)
            return data.draw(st.integers(0, n - 1))

        @initialize(data=st.data())
        def start(self, data):
            if ctx.soft_deadline is not None and time.time() > ctx.soft_deadline:
                # stop the whole search (returning early here would make Hypothesis see
                # time-dependent data generation); the machines not run are counted in shard()
                ctx.extra["budget_stop"] = 1
                raise BudgetStop()
            ctx.extra["machines_started"] += 1
            self.lib0 = data.draw(start_library())
            try:
                self.world = World(self.lib0)
                self.world.check_links()
            except Exception as e:  # noqa: BLE001
                return self._fail(e, "parse")
            if data.draw(st.integers(0, 3)) != 0:
                self.copy_step(data)

        # ---- rules ---------------------------------------------------------
        @rule(data=st.data())
        def deepcopy(self, data):
            if self.dead or len(self.world.trees) >= MAX_TREES:
                return
            if self.copy_step(data):
                self.observe(data)

        @rule(data=st.data())
        def add_symbol(self, data):
            if self.dead:
                return
            k = self.tree_index(data)
            if k is None:
                return
            lib = self.world.lib(k)
            cid = pick_class(data.draw, lib, lib.models())
            types = usable_types(lib, cid)
            if types and data.draw(st.integers(0, 2)) == 0:
                # prefer the most recently created classes (those made by add_class)
                t = types[-1] if data.draw(st.integers(0, 1)) == 0 else data.draw(st.sampled_from(types))
                comp = {"name": self.name("c"), "cls": t, "prefixes": [], "dims": [], "mods": [], "value": None}
                if lib.cls(t)["kind"] == "model":
                    targets = one_level_mod_targets(lib, t)
                    if targets and data.draw(st.integers(0, 1)) == 0:
                        comp["mods"].append({"path": [data.draw(st.sampled_from(targets))], "attr": "start",
                                             "expr": data.draw(st.sampled_from(START_LITS))})
                trial = L.Lib(jcopy(lib.data))
                trial.cls(cid)["comps"].append(comp)
                if max_leaves(trial) > MAX_LEAVES:
                    return
                eq = None
            else:
                comp = draw_elementary(data.draw, self.name("w"))
                eq = None
                if data.draw(st.integers(0, 2)) != 0:
                    trial = L.Lib(jcopy(lib.data))
                    trial.cls(cid)["comps"].append(comp)
                    refs, _ = real_refs(trial, cid)
                    eq = [L.ref_node([comp["name"]], comp), data.draw(L.eq_expr(refs, 1))]
            if self.do(["add_symbol", k, cid, comp, eq]):
                self.observe(data, cid)

        @rule(data=st.data())
        def remove_symbol(self, data):
            if self.dead:
                return
            k = self.tree_index(data)
            if k is None:
                return
            lib = self.world.lib(k)
            cands = [m for m in lib.models() if removable_symbols(lib, m)]
            if not cands:
                return
            cid = pick_class(data.draw, lib, cands)
            name = data.draw(st.sampled_from(removable_symbols(lib, cid)))
            if self.do(["remove_symbol", k, cid, name]):
                self.observe(data, cid)

        @rule(data=st.data())
        def add_equation(self, data):
            if self.dead:
                return
            k = self.tree_index(data)
            if k is None:
                return
            lib = self.world.lib(k)
            cands = [m for m in lib.models() if real_refs(lib, m)[0]]
            if not cands:
                return
            cid = pick_class(data.draw, lib, cands)
            refs, plain = real_refs(lib, cid)
            initial = bool(plain) and data.draw(st.integers(0, 4)) == 0
            if initial:
                eq = [data.draw(st.sampled_from(plain)), data.draw(L.eq_expr(refs, 1))]
            elif plain and data.draw(st.integers(0, 3)) == 0:
                eq = [["der", data.draw(st.sampled_from(plain))], data.draw(L.eq_expr(refs, 2))]
            else:
                eq = [data.draw(st.sampled_from(refs)), data.draw(L.eq_expr(refs, 2))]
            if self.do(["add_equation", k, cid, eq, initial]):
                self.observe(data, cid)

        @rule(data=st.data())
        def remove_equation(self, data):
            if self.dead:
                return
            k = self.tree_index(data)
            if k is None:
                return
            lib = self.world.lib(k)
            cands = [m for m in lib.models() if lib.cls(m)["eqs"] or lib.cls(m)["ieqs"]]
            if not cands:
                return
            cid = pick_class(data.draw, lib, cands)
            c = lib.cls(cid)
            initial = bool(c["ieqs"]) and (not c["eqs"] or data.draw(st.integers(0, 2)) == 0)
            index = data.draw(st.integers(0, len(c["ieqs" if initial else "eqs"]) - 1))
            if self.do(["remove_equation", k, cid, index, initial]):
                self.observe(data, cid)

        @rule(data=st.data())
        def add_class(self, data):
            if self.dead:
                return
            draw = data.draw
            k = self.tree_index(data)
            if k is None:
                return
            lib = self.world.lib(k)
            if len(lib.data["classes"]) >= 12:
                return
            parents = [None, None] + [c["id"] for c in lib.data["classes"] if c["kind"] in ("package", "model")]
            parents += [c["id"] for c in lib.data["classes"] if c["kind"] == "package"] * 2
            parent = draw(st.sampled_from(parents))
            nid = self.name("N")
            cdef = {"id": nid, "parent": parent, "kind": "model", "extends": [], "comps": [], "eqs": [], "ieqs": []}
            trial = L.Lib(jcopy(lib.data))
            trial.data["classes"].append(cdef)
            trial.by_id[nid] = cdef
            chain = [nid] + ([] if parent is None else [parent] + lib.ancestors(parent))
            memo = {}
            # no instantiation cycle: the new class becomes a nested class of every class in chain[1:]
            mtypes = [m for m in lib.models() if not (set(chain) & (reach_all(lib, m) | {m}))
                      and L.depth_of(lib.data["classes"], m, memo) < 3]
            if mtypes and draw(st.integers(0, 2)) == 0:
                b = pick_class(draw, lib, mtypes)
                if not L.foreign_nonportable(trial.data["classes"], b, chain):
                    cdef["extends"].append({"cls": b, "mods": []})
            for _ in range(draw(st.integers(1, 2))):
                cdef["comps"].append(draw_elementary(draw, self.name("w")))
            if mtypes and draw(st.integers(0, 1)) == 0:
                t = pick_class(draw, lib, mtypes)
                comp = {"name": self.name("c"), "cls": t, "prefixes": [], "dims": [], "mods": [], "value": None}
                targets = one_level_mod_targets(lib, t)
                if targets and draw(st.integers(0, 1)) == 0:
                    comp["mods"].append({"path": [draw(st.sampled_from(targets))], "attr": "start", "expr": draw(st.sampled_from(START_LITS))})
                cdef["comps"].append(comp)
            refs, _ = real_refs(trial, nid)
            for _ in range(draw(st.integers(0, 2))):
                if refs:
                    cdef["eqs"].append([draw(st.sampled_from(refs)), draw(L.eq_expr(refs, 1))])
            if max_leaves(trial) > MAX_LEAVES:
                return
            via = "add_class"
            if parent is not None and all(lib.cls(a)["kind"] == "package" for a in [parent] + lib.ancestors(parent)):
                via = draw(st.sampled_from(["add_class", "extend", "extended_by", "extended_by"]))
            if not self.do(["add_class", k, nid, cdef] + ([via] if via != "add_class" else [])):
                return
            if via != "add_class" and len(self.world.trees) < MAX_TREES and draw(st.integers(0, 2)) != 0:
                # a merged tree is copied straight away, most of the time
                if not self.do(["copy", k]):
                    return
            # usually make an existing class depend on the new one
            lib = self.world.lib(k)
            hosts = [m for m in lib.models() if m != nid and nid in usable_types(lib, m)]
            if hosts and draw(st.integers(0, 3)) != 0:
                host = pick_class(draw, lib, hosts)
                comp = {"name": self.name("c"), "cls": nid, "prefixes": [], "dims": [], "mods": [], "value": None}
                trial = L.Lib(jcopy(lib.data))
                trial.cls(host)["comps"].append(comp)
                if max_leaves(trial) <= MAX_LEAVES:
                    if not self.do(["add_symbol", k, host, comp, None]):
                        return
            self.observe(data, nid)

        @rule(data=st.data())
        def remove_class(self, data):
            if self.dead:
                return
            k = self.tree_index(data)
            if k is None:
                return
            lib = self.world.lib(k)
            cands = removable_classes(lib)
            if not cands:
                return
            cid = data.draw(st.sampled_from(cands))
            if self.do(["remove_class", k, cid]):
                self.observe(data)

        @rule(data=st.data())
        def restore_class(self, data):
            """Class.add_class(copy.deepcopy(<class object of another tree>)): a class that this tree
            lacks (removed here, or added only there) is copied over from a tree that has it."""
            if self.dead or len(self.world.trees) < 2:
                return
            w = self.world
            cands = []
            for k in range(len(w.trees)):
                lk = w.lib(k)
                for j in range(len(w.trees)):
                    if j == k:
                        continue
                    lj = w.lib(j)
                    for c in lj.data["classes"]:
                        cid = c["id"]
                        if cid in lk.by_id or c["kind"] == "package":
                            continue
                        if c["parent"] is not None and (c["parent"] not in lk.by_id or jcopy(lk.ancestors(c["parent"])) != jcopy(lj.ancestors(c["parent"]))):
                            continue
                        ids = subtree(lj, cid)
                        if any(i in lk.by_id for i in ids):
                            continue
                        refs = set()
                        for i in ids:
                            refs |= set(uses(lj.cls(i)))
                        if not all(r in ids or (r in lk.by_id and lk.cls(r)["parent"] == lj.cls(r)["parent"]) for r in refs):
                            continue
                        if len(lk.data["classes"]) + len(ids) > 13:
                            continue
                        cands.append((k, cid, j))
            if not cands:
                return
            k, cid, j = data.draw(st.sampled_from(cands))
            removed_here = any(op[0] == "remove_class" and op[1] == k and op[2] == cid for op in self.ops)
            trial = L.Lib(jcopy(w.trees[k][1]))
            trial.data["classes"] += [jcopy(c) for c in w.trees[j][1]["classes"] if c["id"] in subtree(w.lib(j), cid)]
            trial = L.Lib(trial.data)
            if max_leaves(trial) > MAX_LEAVES:
                return
            if self.do(["restore_class", k, cid, j, removed_here]):
                self.observe(data, cid)

        @rule(data=st.data())
        def flatten(self, data):
            if self.dead:
                return
            targets = self.world.all_targets()
            n = data.draw(st.integers(1, 3))
            idx = data.draw(st.lists(st.integers(0, len(targets) - 1), min_size=n, max_size=n))
            self.do(["flatten", [targets[i] for i in idx]])

        def teardown(self):
            if self.dead or self.world is None:
                return
            if not self.do(["flatten_all"]):
                return
            w = self.world
            labels = set(w.labels)
            labels.add("trees:%d" % len(w.trees))
            ctx.record(self.case(), w.nt, labels=sorted(labels),
                       sample={"text": L.print_lib(L.Lib(self.lib0)), "ops": self.ops})
            ctx.extra["operations"] += w.nops
            ctx.extra["reference_flattens"] += len(w.ref_cache)

    return Machine


class BudgetStop(BaseException):
    """Soft time budget reached (BaseException: passes through Hypothesis untouched)."""


def shard(ctx):
    n = ctx.share(260, 4000)
    M = make_machine(ctx)
    try:
        run_state_machine_as_test(hypothesis.seed(ctx.hseed)(M), settings=hsettings(n, stateful_steps=ctx.pick(12, 25)))
    except BaseException:  # noqa: BLE001 - Hypothesis may wrap the interruption in its own error
        if not ctx.extra.pop("budget_stop", 0):
            raise
        ctx.out_of_budget += max(1, n - ctx.extra["machines_started"])


def replay(ctx, case):
    w = World(case["lib"])
    w.check_links()
    for op in case["ops"]:
        try:
            w.apply(op)
            w.check_links()
        except Exception as e:  # noqa: BLE001
            raise as_violation(e, op[0])


MANIFEST = dict(
    text="Stateful model-based search: up to four trees (a parsed generated library, deep copies, copies of "
    "copies) are edited through the AST API (add/remove class - also by Tree.extend with a 'within' file or as a deep copy of another tree's class object - symbol, equation, initial equation) in "
    "drawn interleavings with deepcopy and flatten; each tree has an abstract model edited in lock-step, "
    "and flattening any class of any tree must agree with flattening a fresh parse of that tree's "
    "printed model (so edits are visible exactly in the tree they were made in, also through component "
    "types and extends); parent links of every class are checked to stay inside their own tree.  Sampled.",
    note="Trusts the G-lib printer, pymoca's parser and flatten on a freshly parsed text as the reference "
    "(differential), and the harness's lock-step edit of the abstract model.",
    technique="stateful model-based testing (Hypothesis rule-based machine), differential against re-parse of a lock-step model",
)
