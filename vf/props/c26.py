"""C26 - Compiler CLI exit status counts exactly the errors.

The code under test is `tools.compiler.main(argv)` (called in-process; argparse
errors arrive as SystemExit).  The harness plants a small file tree (good
files, files with syntax errors, an undecodable file, models that parse but do
not flatten, the same file stem in two directories, a sub-directory, a
non-Modelica file, an empty directory) and generates *abstract invocations*
over it.  The expected status is computed by a reference counter from the
abstract invocation and the tree layout alone:

    argparse-level error                       -> SystemExit(2)
    U = bad outdir + missing PATHs + bad -O    -> U            (if U > 0)
    no .mo file under the PATHs                -> 1
    P = files with parse errors                -> P (or P + F) (if P > 0)
    otherwise                                  -> F = number of requested models that fail

"model fails" is decided by the harness without the tool: fresh (cache
bypassing) parse of the same files + `pymoca.tree.flatten` (no target),
`pymoca.backends.sympy.generator.generate` or an unwritable output file
(sympy), no unique file with that stem or `transfer_model` raising on a
separate copy of the directory (casadi).

Metamorphic part (last sentence of the statement): every call with several -m
is re-run with each -m alone; each single status must be that model's own
verdict and the statuses must add up to the status of the combined call.
"""
import io
import logging
import os
import random
import shutil
import sys
from pathlib import Path, PurePosixPath

from hypothesis import strategies as st

from vf import env
from vf.core import Violation, as_violation, drive, pymoca_frame

ID = "C26"
LEVEL = "exploration"
RULE = (
    "Hypothesis draws abstract invocations over a scratch tree that is fixed except for one file whose content (valid / "
    "syntax error / another model) is rewritten before each invocation of the same process (layout v1: 18 files in 10 "
    "directories): 1-3 pairwise non-overlapping PATH args (existing files / directories / missing "
    "paths / a non-.mo file / an empty directory), -o in {existing dir, omitted, dir in which "
    "<Model>.py cannot be written, missing dir, regular file}, 0-2 -O (well-formed incl. real "
    "casadi options, or ill-formed: no '=' / two '='), -t in {none, sympy, casadi}, 0-3 -m "
    "(succeeding, failing to flatten, unknown, context-dependent, ambiguous stem), -v count 0-2, "
    "four option spellings, shuffled option order, and four argparse-level errors (no PATH, -t "
    "without -m, invalid -t, -m without value).  Half of the draws are steered to usage-clean "
    "calls so that the model stage is reached, and three rare conjunctions (duplicate stem + "
    "casadi + that model; sympy + unwritable output file; casadi + an option that breaks "
    "generation) get a fixed share.  Non-trivial = at least two planted errors (bad "
    "outdir, each missing PATH, each ill-formed -O, no .mo found, each file with parse errors, "
    "each failing model, argparse error) or at least two -m models.  Distinct = distinct abstract "
    "invocation (canonical JSON)."
)
ASSUMPTIONS = [
    "U > 0 => status == U and 'no .mo file found' => status == 1: later stages are not run after "
    "a usage error (the tool's documented behaviour and the design's reading of the statement)",
    "P > 0 (no target / sympy): both readings of the statement are accepted, status == P or "
    "status == P + F with F decided on the files that do parse",
    "-t casadi with files with parse errors under the PATHs: the tool hands parsing to "
    "casadi.api.transfer_model, which only reads the inferred model directory, so whether such "
    "files are 'files with parse errors' of the invocation is not decidable from the statement; "
    "the oracle is restricted there to status in {F, P, P + F} (F includes models whose directory "
    "contains an unparsable file) and the metamorphic sum is not checked",
    "PATH args of one invocation never overlap (no file is reachable through two PATH args): "
    "whether such a file counts once or twice is not fixed by the statement",
    "-O cache=... / codegen=... are not generated (they write into the shared model directory; "
    "cache staleness is C19/C20's subject)",
    "a file that is not valid UTF-8 is a file with parse errors (Modelica files are UTF-8)",
    "an output file that cannot be opened for writing makes a sympy model 'fail to generate'",
    "the verdict 'model fails' trusts pymoca.parser.parse(bypass_cache=True), tree.flatten, "
    "sympy generator.generate and casadi api.transfer_model called directly by the harness; "
    "the options dict is rebuilt by the harness from the -O strings in command-line order",
]
SHARDS = {"quick": 8, "thorough": 16}  # start-up (casadi, sympy, antlr imports) dominates the quick tier

# --------------------------------------------------------------------------
# scratch tree layouts (the stored case names the layout; replay rebuilds it)
# --------------------------------------------------------------------------
GOOD, SYNTAX, ENCODING, OTHER = "good", "syntax", "encoding", "other"

LAYOUTS = {
    "v1": {
        "files": {
            "lib/Good1.mo": (GOOD, "model Good1 Real x; equation der(x) = -x; end Good1;\n"),
            "lib/Good2.mo": (GOOD, "model Good2 parameter Real k = 2; Real y; equation der(y) = -k*y; end Good2;\n"),
            "lib/Pkg.mo": (GOOD, "package Pkg model Inner Real z; equation der(z) = 1; end Inner; end Pkg;\n"),
            "lib/sub/Good3.mo": (GOOD, "model Good3 Real x; equation der(x) = 1; end Good3;\n"),
            "dup/Good1.mo": (GOOD, "model Good1 Real w; equation der(w) = -2*w; end Good1;\n"),
            "dup/Good4.mo": (GOOD, "model Good4 Real x; equation der(x) = 4; end Good4;\n"),
            "flat/BadClass.mo": (GOOD, "model BadClass Missing m; end BadClass;\n"),
            "flat/BadMod.mo": (
                GOOD,
                "model Inner2 Real x; equation der(x) = 1; end Inner2;\nmodel BadMod Inner2 i(y = 3); end BadMod;\n",
            ),
            "flat/Good5.mo": (GOOD, "model Good5 Real x; equation der(x) = 5; end Good5;\n"),
            "app/UsesGood1.mo": (GOOD, "model UsesGood1 Good1 g; end UsesGood1;\n"),
            "syn/Syn1.mo": (SYNTAX, "model Syn1 Real x equation end Syn1;\n"),
            "syn/Syn2.mo": (SYNTAX, "model Syn2 Real x; equation der(x) = ; end Syn2;\n"),
            "mix/GoodM.mo": (GOOD, "model GoodM Real x; equation der(x) = -3*x; end GoodM;\n"),
            "mix/SynM.mo": (SYNTAX, "model SynM Real x; equation x = (1; end SynM;\n"),
            "enc/Enc.mo": (ENCODING, b'model Enc Real x "\xff\xfe"; end Enc;\n'),
            "enc/GoodE.mo": (GOOD, "model GoodE Real x; equation der(x) = 1; end GoodE;\n"),
            "notes.txt": (OTHER, "not a Modelica file\n"),
            # a file whose content changes between invocations of the same process (case["flip"])
            "edit/Flip.mo": (GOOD, "model Flip Real x; equation der(x) = 1; end Flip;\n"),
        },
        "mutable": {"edit/Flip.mo": {
            "good": "model Flip Real x; equation der(x) = 1; end Flip;\n",
            "syntax": "model Flip Real x equation end Flip;\n",
            "other": "model Flop Real y; equation der(y) = 2; end Flop;\n",
        }},
        "dirs": [".", "lib", "lib/sub", "dup", "flat", "app", "syn", "mix", "enc", "empty", "edit"],
        "missing": ["nowhere", "lib/Missing.mo", "ghost/sub"],
        # models whose <Model>.py is a directory inside the "blocked" output dir
        "blocked": ["Good1", "Good3", "Good5", "UsesGood1", "Pkg.Inner"],
        # PATH combinations worth more than their random share
        "combos": [
            ["lib", "dup"], ["lib/Good1.mo", "dup/Good1.mo"], ["dup", "flat", "lib"], ["lib/Good1.mo", "dup"],
            ["app", "lib"], ["app", "dup"], ["lib/Good1.mo", "app"], ["flat", "lib/sub"], ["mix", "lib"],
            ["lib/sub", "lib/Good2.mo", "lib/Pkg.mo"],
        ],
        # models defined per file where that is not just the file stem
        "defines": {"lib/Pkg.mo": ["Pkg", "Pkg.Inner"], "flat/BadMod.mo": ["Inner2", "BadMod"]},
    }
}
DEFAULT_LAYOUT = "v1"

MODELS_OK = ["Good1", "Good2", "Good3", "Good4", "Good5", "GoodM", "GoodE", "Pkg.Inner", "Pkg", "Inner2"]
MODELS_CTX = ["UsesGood1", "Flip", "Flop"]  # succeed or fail depending on what else is on the PATHs / what edit/Flip.mo holds
MODELS_BAD = ["BadClass", "BadMod", "Nope", "Syn1"]

OPTS_GOOD = [
    "spam=eggs",
    "check_balanced=False",
    "expand_mx=True",
    "detect_aliases=true",
    "replace_constant_values=TRUE",
    "verbose=True",
    "check_balanced=True",
    "library_folders=nowhere",  # well-formed, but makes transfer_model raise (str instead of list)
    "empty=",
]
OPTS_BAD = ["eggs", "a=b=c", "check_balanced", "expand_mx=True=1"]

ARGERRS = ["no_path", "t_without_m", "bad_target", "m_no_value"]


# --------------------------------------------------------------------------
# abstract layout queries (never look at the file system)
# --------------------------------------------------------------------------
def _is_under(path, d):
    return d == "." or path == d or path.startswith(d + "/")


def file_kind(layout, f, case=None):
    """Kind of a planted file for this invocation (the mutable file follows case["flip"])."""
    if f in layout.get("mutable", {}) and case is not None:
        return SYNTAX if case.get("flip", "good") == "syntax" else GOOD
    return layout["files"][f][0]


def token_kind(layout, tok):
    if tok in layout["files"]:
        return "file"
    if tok in layout["dirs"]:
        return "dir"
    return "missing"


def overlap(a, b):
    return _is_under(a, b) or _is_under(b, a)


def found_files(layout, paths):
    """The .mo files an invocation designates, from the layout alone."""
    out = []
    for tok in paths:
        k = token_kind(layout, tok)
        if k == "file":
            if tok.endswith(".mo"):
                out.append(tok)
        elif k == "dir":
            out.extend(sorted(f for f in layout["files"] if f.endswith(".mo") and _is_under(f, tok)))
    return out


def well_formed(opt):
    return opt.count("=") == 1


def options_dict(opts):
    """NAME=VALUE strings (command-line order) -> generator options, as the
    tool's help describes them: true/false become booleans, the rest strings."""
    out = {}
    for o in opts:
        if not well_formed(o):
            continue
        name, value = o.split("=")
        if value.lower() == "true":
            value = True
        elif value.lower() == "false":
            value = False
        out[name] = value
    return out


# --------------------------------------------------------------------------
# strategy
# --------------------------------------------------------------------------
def _weighted(pairs):
    pool = []
    for v, w in pairs:
        pool.extend([v] * w)
    return st.sampled_from(pool)


def defined_models(layout, files):
    """Model names that the given (good) files define, from the layout alone."""
    out = []
    for f in files:
        if layout["files"][f][0] != GOOD:
            continue
        out.extend(layout.get("defines", {}).get(f, [PurePosixPath(f).stem]))
    return out


@st.composite
def invocations(draw, layout_name=DEFAULT_LAYOUT):
    layout = LAYOUTS[layout_name]
    # steer the draws: half of them are usage-clean so that the parse / model
    # stages are reached, a few designate no Modelica file at all
    flavour = draw(_weighted([("clean", 12), ("dirty", 8), ("nofiles", 1), ("argerr", 2)]))
    # rare conjunctions get a share of their own: duplicate stem + casadi + that model,
    # sympy + unwritable output file, casadi + an option that breaks generation
    focus = draw(_weighted([(None, 6), ("ambiguous", 2), ("unwritable", 1), ("option", 1)])) if flavour == "clean" else None
    argerr = draw(_weighted([(a, 1) for a in ARGERRS])) if flavour == "argerr" else None
    dirty = flavour in ("dirty", "argerr") and draw(_weighted([(True, 3), (False, 1)]))

    files = sorted(layout["files"])
    good_files = [f for f in files if layout["files"][f][0] == GOOD]
    bad_files = [f for f in files if layout["files"][f][0] in (SYNTAX, ENCODING)]
    good_dirs = ["lib", "lib/sub", "dup", "flat", "app", "edit", "edit"]
    bad_dirs = ["syn", "mix", "enc", "."]
    if flavour == "nofiles":
        tok = _weighted([("notes.txt", 1), ("empty", 1)])
    elif not dirty:
        tok = _weighted(
            [(t, 8) for t in good_dirs] + [(t, 2) for t in good_files] + [(t, 2) for t in bad_dirs] + [(t, 1) for t in bad_files]
            + [("notes.txt", 2), ("empty", 2)]
        )
    else:
        tok = _weighted(
            [(t, 4) for t in good_dirs] + [(t, 1) for t in good_files] + [(t, 1) for t in bad_dirs] + [(t, 1) for t in bad_files]
            + [(t, 6) for t in layout["missing"]] + [("notes.txt", 1), ("empty", 1)]
        )
    want = draw(_weighted([(1, 3), (2, 4), (3, 2)]))
    paths = []
    if focus == "ambiguous":
        paths = list(draw(st.sampled_from([c for c in layout["combos"] if len(found_files(layout, c)) > len({PurePosixPath(f).stem for f in found_files(layout, c)})])))
        want = 0
    elif flavour == "clean" and draw(_weighted([(True, 1), (False, 2)])):
        # combinations that matter for -m: duplicate stems, a model and the file it needs, ...
        paths = list(draw(st.sampled_from(layout["combos"])))
        want = 0
    for _ in range(want * 3):
        if len(paths) >= want:
            break
        t = draw(tok)
        if any(overlap(t, p) for p in paths):
            continue
        paths.append(t)

    target = draw(_weighted([(None, 3), ("sympy", 3), ("casadi", 4)]))
    nm = draw(_weighted([(0, 1), (1, 3), (2, 4), (3, 3)]))
    if target is not None and nm == 0:
        nm = 1
    here = [m for m in defined_models(layout, found_files(layout, paths)) if m not in MODELS_BAD]
    mpool = _weighted([(m, 1) for m in MODELS_OK] + [(m, 4) for m in MODELS_CTX] + [(m, 3) for m in MODELS_BAD] + [(m, 6) for m in here])
    models = [draw(mpool) for _ in range(nm)]

    if not dirty:
        outdir = draw(_weighted([("dir", 3), ("omitted", 2), ("blocked", 4)]))
        opts = draw(st.lists(_weighted([(o, 1) for o in OPTS_GOOD] + [("library_folders=nowhere", 2)]), max_size=2))
    else:
        outdir = draw(_weighted([("dir", 2), ("omitted", 1), ("blocked", 1), ("missing", 2), ("file", 2)]))
        opts = draw(st.lists(_weighted([(o, 1) for o in OPTS_GOOD] + [(o, 3) for o in OPTS_BAD]), max_size=2))
    verbose = draw(_weighted([(0, 3), (1, 1), (2, 1)]))
    if focus == "ambiguous":
        stems = [PurePosixPath(f).stem for f in found_files(layout, paths)]
        target, models = "casadi", [draw(st.sampled_from(sorted(m for m in set(stems) if stems.count(m) > 1)))] + models[1:]
    elif focus == "unwritable":
        target, outdir = "sympy", "blocked"
    elif focus == "option":
        target, opts = "casadi", (opts[:1] + ["library_folders=nowhere"])[-2:]
    if target is not None and not models:
        models = [draw(mpool)]
    case = {
        "layout": layout_name,
        "paths": paths,
        "outdir": outdir,
        "opts": opts,
        "target": target,
        "models": models,
        "verbose": verbose,
        "spell": draw(_weighted([(i, 1) for i in range(4)])),
        "perm": draw(st.integers(0, 999)),
        "pathpos": draw(_weighted([(i, 1) for i in range(10)])),
        "argerr": argerr,
        "flip": draw(_weighted([("good", 2), ("syntax", 1), ("other", 1)])),
    }
    if argerr == "t_without_m":
        case["models"] = []
        if case["target"] is None:
            case["target"] = draw(st.sampled_from(["sympy", "casadi"]))
    elif argerr == "bad_target":
        case["target"] = draw(st.sampled_from(["fortran", "SymPy", "casadi,sympy"]))
        if not case["models"]:
            case["models"] = ["Good1"]
    return case


# --------------------------------------------------------------------------
# rendering an abstract invocation to argv
# --------------------------------------------------------------------------
_SPELL = {
    "m": ("-m", "--model"),
    "t": ("-t", "--target"),
    "O": ("-O", "--option"),
    "o": ("-o", "--outdir"),
}


def _opt(kind, value, spell):
    short, long_ = _SPELL[kind]
    if spell == 0:
        return [short, value]
    if spell == 1:
        return [short + value]
    if spell == 2:
        return [long_, value]
    return [long_ + "=" + value]


def ordered_groups(case):
    """Option groups in command-line order (a pure function of the case)."""
    groups = [("m", m) for m in case["models"]]
    groups += [("O", o) for o in case["opts"]]
    if case["target"] is not None:
        groups.append(("t", case["target"]))
    if case["outdir"] != "omitted":
        groups.append(("o", case["outdir"]))
    v = case["verbose"]
    if v == 2 and case["spell"] == 0:
        groups.append(("v", "-vv"))
    else:
        groups += [("v", "--verbose" if case["spell"] >= 2 else "-v")] * v
    random.Random(case["perm"]).shuffle(groups)
    return groups


def opts_in_order(case):
    return [v for k, v in ordered_groups(case) if k == "O"]


def render(case, root, work):
    """argv for the tool.  `root`: the planted tree, `work`: per-case directory
    with out/ blocked/ afile cwd/ (and no `no_such_dir`)."""
    outmap = {"dir": work / "out", "blocked": work / "blocked", "missing": work / "no_such_dir", "file": work / "afile"}
    groups = ordered_groups(case)
    chunks = []
    for k, v in groups:
        if k == "v":
            chunks.append([v])
        elif k == "o":
            chunks.append(_opt("o", str(outmap[v]), case["spell"]))
        else:
            chunks.append(_opt(k, v, case["spell"]))
    if case["argerr"] != "no_path":
        pos = case["pathpos"] % (len(chunks) + 1)
        chunks.insert(pos, [str(root) if p == "." else str(root / p) for p in case["paths"]])
    argv = [a for c in chunks for a in c]
    if case["argerr"] == "m_no_value":
        argv.append("-m" if case["spell"] < 2 else "--model")
    return argv


def pretty(case):
    return " ".join(render(case, PurePosixPath("<tree>"), PurePosixPath("<work>")))


# --------------------------------------------------------------------------
# per-process environment: the planted trees, imports, logging hygiene
# --------------------------------------------------------------------------
class Env:
    def __init__(self, ctx, layout_name):
        self.layout_name = layout_name
        self.layout = LAYOUTS[layout_name]
        base = Path(ctx.scratch) / ("c26_" + layout_name)
        if base.exists():
            shutil.rmtree(base)
        self.base = base
        self.root = base / "tree"  # what the tool is pointed at
        self.ref = base / "ref"  # separate copy for the harness's own transfer_model calls
        for r in (self.root, self.ref):
            build_tree(r, self.layout)
        self.counter = 0
        self.verdicts = {}
        self.flip = "good"
        env.pin_version()
        import tools.compiler as tc

        here = Path(tc.__file__).resolve()
        if env.REPO not in here.parents:
            raise env.HarnessError("tools.compiler imported from %s, not from %s" % (here, env.REPO))
        import pymoca.backends.casadi.api  # noqa: F401  (so that pin_version reaches its copy)

        env.pin_version()
        self.tc = tc
        lg = logging.getLogger("pymoca")
        if not any(isinstance(h, logging.NullHandler) for h in lg.handlers):
            lg.addHandler(logging.NullHandler())
        self.self_check()

    def set_flip(self, variant):
        """Rewrite the mutable file(s) in the tool's tree and in the reference copy."""
        for f, variants in self.layout.get("mutable", {}).items():
            for r in (self.root, self.ref):
                (r / f).write_text(variants[variant], encoding="utf-8")
        self.flip = variant

    def self_check(self):
        """The layout's declared file kinds must be what pymoca's parser says
        (otherwise the reference counter counts the wrong thing)."""
        for f, (kind, _content) in self.layout["files"].items():
            if not f.endswith(".mo"):
                continue
            ok = parses(self.ref / f)
            if ok != (kind == GOOD):
                raise env.HarnessError("layout %s: %s declared %s but parses=%s" % (self.layout_name, f, kind, ok))


_ENVS = {}


def get_env(ctx, layout_name):
    key = (str(ctx.scratch), layout_name)
    if key not in _ENVS:
        _ENVS[key] = Env(ctx, layout_name)
    return _ENVS[key]


def build_tree(root, layout):
    root.mkdir(parents=True)
    for d in layout["dirs"]:
        (root / d).mkdir(parents=True, exist_ok=True)
    for f, (_kind, content) in layout["files"].items():
        p = root / f
        p.parent.mkdir(parents=True, exist_ok=True)
        if isinstance(content, bytes):
            p.write_bytes(content)
        else:
            p.write_text(content, encoding="utf-8")


class quiet:
    """The ANTLR error listener and the logging last-resort handler write to
    sys.stderr: keep the harness's own pymoca calls silent."""

    def __enter__(self):
        self.old = (sys.stderr, sys.stdout)
        sys.stderr, sys.stdout = io.StringIO(), io.StringIO()

    def __exit__(self, *a):
        sys.stderr, sys.stdout = self.old
        return False


def parse_fresh(path):
    """AST of one file, or None when the file has parse errors; never uses the
    parse cache the tool uses."""
    import pymoca.parser

    try:
        text = path.read_bytes().decode("utf-8")
    except UnicodeDecodeError:
        return None
    with quiet():
        return pymoca.parser.parse(text, bypass_cache=True)


def parses(path):
    return parse_fresh(path) is not None


def _raises(fn, *args):
    """True when a direct pymoca call raises.  An exception without a pymoca
    frame is a harness bug and propagates."""
    try:
        with quiet():
            fn(*args)
    except Exception as e:  # noqa: BLE001 - 'fails' means 'raises' here
        if pymoca_frame(e) == "?":
            raise
        return True
    return False


def model_fails(E, target, files, model, options, outdir):
    """Independent verdict for one requested model (True = fails)."""
    key = (target, tuple(files), model, repr(sorted(options.items(), key=lambda kv: kv[0])), outdir if target == "sympy" else None,
           E.flip if any(f in E.layout.get("mutable", {}) for f in files) else None)
    if key in E.verdicts:
        return E.verdicts[key]
    import pymoca.ast
    import pymoca.tree

    if target == "casadi":
        hits = [f for f in files if PurePosixPath(f).stem == model]
        if len(hits) != 1:
            res = True
        else:
            import pymoca.backends.casadi.api as api

            folder = E.ref / PurePosixPath(hits[0]).parent
            res = _raises(api.transfer_model, str(folder), model, dict(options))
    else:
        lib = pymoca.ast.Tree(name="ModelicaTree")
        for f in files:
            t = parse_fresh(E.ref / f)
            if t is not None:
                lib.extend(t)
        if target is None:
            res = _raises(pymoca.tree.flatten, lib, pymoca.ast.ComponentRef.from_string(model))
        else:
            import pymoca.backends.sympy.generator as sympy_gen

            res = _raises(sympy_gen.generate, lib, model, dict(options))
            if not res and outdir == "blocked" and model in E.layout["blocked"]:
                res = True  # <Model>.py is a directory: the output file cannot be written
    E.verdicts[key] = res
    return res


def make_work(E):
    E.counter += 1
    work = E.base / ("case_%d" % E.counter)
    (work / "out").mkdir(parents=True)
    (work / "cwd").mkdir()
    (work / "afile").write_text("a regular file\n")
    for m in E.layout["blocked"]:
        (work / "blocked" / (m + ".py")).mkdir(parents=True)
    return work


def call_main(E, argv, cwd):
    """-> ("ret", value) | ("exit", code) | ("exc", exception)"""
    lg = logging.getLogger("pymoca")
    old = (os.getcwd(), sys.stderr, sys.stdout, lg.level)
    os.chdir(cwd)
    sys.stderr, sys.stdout = io.StringIO(), io.StringIO()
    try:
        try:
            return ("ret", E.tc.main(list(argv)))
        except SystemExit as e:
            return ("exit", e.code)
        except Exception as e:  # noqa: BLE001 - classified by the caller
            return ("exc", e)
    finally:
        os.chdir(old[0])
        sys.stderr, sys.stdout = old[1], old[2]
        lg.setLevel(old[3])  # main() sets the level from -v; do not leak it into the next call


# --------------------------------------------------------------------------
# reference counter + check
# --------------------------------------------------------------------------
def planted(case):
    """Abstract facts about an invocation (no pymoca involved)."""
    layout = LAYOUTS[case["layout"]]
    kinds = [token_kind(layout, p) for p in case["paths"]]
    files = found_files(layout, case["paths"])
    bad = [f for f in files if file_kind(layout, f, case) in (SYNTAX, ENCODING)]
    good = [f for f in files if file_kind(layout, f, case) == GOOD]
    u_out = 1 if case["outdir"] in ("missing", "file") else 0
    u_path = sum(1 for k in kinds if k == "missing")
    u_opt = sum(1 for o in case["opts"] if not well_formed(o))
    return dict(files=files, bad=bad, good=good, u_out=u_out, u_path=u_path, u_opt=u_opt, U=u_out + u_path + u_opt)


def _tname(case):
    if case["target"] in ("sympy", "casadi"):
        return case["target"]
    return "flatten" if case["models"] else "parse_only"


def check_case(ctx, case):
    E = get_env(ctx, case["layout"])
    work = make_work(E)
    E.set_flip(case.get("flip", "good"))
    try:
        return _check(ctx, E, case, work)
    finally:
        shutil.rmtree(work, ignore_errors=True)


def _run(E, case, work, what):
    argv = render(case, E.root, work)
    kind, val = call_main(E, argv, work / "cwd")
    if kind == "exc":
        v = as_violation(val)  # re-raises when no frame of the tool / pymoca is involved
        raise Violation(v.kind, "%s: `%s` let %s escape from main(): %s" % (what, pretty(case), type(val).__name__, str(val)[:200]))
    return kind, val


def _check(ctx, E, case, work):
    pl = planted(case)
    tname = _tname(case)
    target = case["target"] if case["target"] in ("sympy", "casadi") else None
    labels = ["target:" + tname, "verbose:%d" % case["verbose"], "models:%d" % len(case["models"]),
              "outdir:" + case["outdir"], "spelling:%d" % case["spell"], "paths:%d" % len(case["paths"])]
    if case["opts"]:
        labels.append("with_-O")
    nplanted = pl["U"] + len(pl["bad"]) + (1 if case["argerr"] else 0)
    if not pl["files"] and case["argerr"] != "no_path":
        nplanted += 1
    for name, n in (("err:outdir", pl["u_out"]), ("err:missing_path", pl["u_path"]), ("err:bad_option", pl["u_opt"]),
                    ("err:parse_error_file", len(pl["bad"]))):
        if n:
            labels.append(name)
    if any(f.startswith("enc/Enc") for f in pl["bad"]):
        labels.append("feature:undecodable_file")
    if any(f in E.layout.get("mutable", {}) for f in pl["files"]):
        labels.append("feature:mutable_file:" + case.get("flip", "good"))

    def done(phase, extra_planted=0, extra_labels=()):
        n = nplanted + extra_planted
        return dict(nontrivial=(n >= 2 or len(case["models"]) >= 2), labels=labels + ["phase:" + phase] + list(extra_labels),
                    sample={"case": case, "argv": pretty(case)})

    kind, status = _run(E, case, work, "call")

    # ---- argparse level ------------------------------------------------
    if case["argerr"]:
        labels.append("argerr:" + case["argerr"])
        if kind != "exit" or status != 2:
            raise Violation("argparse_error_not_exit_2:" + case["argerr"],
                            "`%s`: expected SystemExit(2), got %s %r" % (pretty(case), kind, status))
        return done("argparse")
    if kind == "exit":
        raise Violation("unexpected_exit", "`%s`: SystemExit(%r) for a well-formed command line" % (pretty(case), status))
    if isinstance(status, bool) or not isinstance(status, int):
        raise Violation("status_not_int", "`%s`: main() returned %r" % (pretty(case), status))

    # ---- usage errors ----------------------------------------------------
    if pl["U"] > 0:
        if status != pl["U"]:
            which = "+".join(n for n, c in (("outdir", pl["u_out"]), ("path", pl["u_path"]), ("option", pl["u_opt"])) if c)
            raise Violation("usage_errors_miscounted:" + which,
                            "`%s`: status %r, expected %d usage errors (bad outdir %d, missing PATHs %d, ill-formed -O %d)"
                            % (pretty(case), status, pl["U"], pl["u_out"], pl["u_path"], pl["u_opt"]))
        return done("usage")
    if not pl["files"]:
        labels.append("err:no_modelica_files")
        if status != 1:
            raise Violation("no_files_status", "`%s`: status %r, expected 1 (no .mo file under the PATHs)" % (pretty(case), status))
        return done("no_files")

    options = options_dict(opts_in_order(case)) if target else {}
    models = list(case["models"])

    # ---- files with parse errors ----------------------------------------
    P = len(pl["bad"])
    if P > 0:
        if target == "casadi":
            fails = [model_fails(E, target, pl["files"], m, options, case["outdir"]) for m in models]
            F = sum(fails)
            if status not in (F, P, P + F):
                raise Violation("status_parse_errors:casadi",
                                "`%s`: status %r, expected F=%d (or P=%d, P+F=%d)" % (pretty(case), status, F, P, P + F))
            return done("parse_errors", F, ["err:model_fails"] if F else [])
        if status != P:
            fails = [model_fails(E, target, pl["good"], m, options, case["outdir"]) for m in models]
            F = sum(fails)
            if status != P + F:
                raise Violation("status_parse_errors:" + tname,
                                "`%s`: status %r, expected P=%d files with parse errors (or P+F=%d)" % (pretty(case), status, P, P + F))
        return done("parse_errors")

    # ---- models ------------------------------------------------------------
    fails = [model_fails(E, target, pl["files"], m, options, case["outdir"]) for m in models]
    F = sum(fails)
    extra = []
    if F:
        extra.append("err:model_fails")
    if models and F < len(models):
        extra.append("model_succeeds")
    if target == "casadi":
        for m in models:
            hits = [f for f in pl["files"] if PurePosixPath(f).stem == m]
            if len(hits) > 1:
                extra.append("feature:ambiguous_stem")
            elif not hits:
                extra.append("feature:no_file_for_model")
        if "library_folders" in options:
            extra.append("feature:option_breaks_generation")
    if target == "sympy" and case["outdir"] == "blocked" and any(m in E.layout["blocked"] for m in models):
        extra.append("feature:unwritable_output")
    if "UsesGood1" in models:
        extra.append("feature:context_dependent_model")
    extra = sorted(set(extra))
    if status != F:
        raise Violation("failing_models_miscounted:%s:%s" % (tname, "under" if status < F else "over"),
                        "`%s`: status %r, expected %d failing model(s) (%s)"
                        % (pretty(case), status, F, ", ".join("%s:%s" % (m, "fails" if f else "ok") for m, f in zip(models, fails))))

    # ---- each model alone: same verdict, statuses add up ------------------
    if len(models) >= 2:
        extra.append("metamorphic_split")
        total = 0
        for m, f in zip(models, fails):
            single = dict(case, models=[m])
            k1, s1 = _run(E, single, work, "single-model call")
            if k1 != "ret" or isinstance(s1, bool) or not isinstance(s1, int):
                raise Violation("single_model_call_outcome:" + tname, "`%s`: %s %r" % (pretty(single), k1, s1))
            if s1 != int(f):
                raise Violation("single_model_verdict:%s" % tname,
                                "`%s`: status %r, but the model %s on its own" % (pretty(single), s1, "fails" if f else "succeeds"))
            total += s1
        if total != status:
            raise Violation("status_not_sum_of_single_model_calls:" + tname,
                            "`%s`: status %r but the single-model calls add up to %d" % (pretty(case), status, total))
    return done("models", F, extra)


def shard(ctx):
    get_env(ctx, DEFAULT_LAYOUT)
    drive(ctx, invocations(DEFAULT_LAYOUT), check_case, ctx.share(1200, 20000))


def replay(ctx, case):
    check_case(ctx, case)


MANIFEST = dict(
    text="Generated command lines for tools/compiler.py over a planted file tree (good / syntax-error / "
    "undecodable files, models that do not flatten, duplicate stems, sub-directories) are run "
    "in-process and the returned status is compared with a reference counter computed from the "
    "abstract invocation: argparse errors exit with 2, usage errors are counted one by one, files "
    "with parse errors are counted, and every requested model is judged by an independent "
    "flatten / SymPy generate / CasADi transfer_model call.  Calls with several -m are split into "
    "single-model calls whose statuses must equal each model's own verdict and add up to the "
    "combined status.  No exception may escape main().",
    note="Trusts the harness's 60-line reference counter, pymoca's parser/flatten/generators called "
    "directly as the per-model verdict, and the fixed tree layout (self-checked against the parser "
    "at start-up).  -t casadi with unparsable files on the PATHs is only checked against the set "
    "{F, P, P+F}; overlapping PATH args and cache/codegen options are not generated.",
    technique="property-based testing with a reference counter over abstract CLI invocations + metamorphic split of multi-model calls",
)
