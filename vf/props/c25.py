"""C25 - ModelicaXML backend mirrors the flat model.

Generated shallow models (elementary variables of every type and variability
with literal start / declaration value / fixed, 0-2 instances of one
sub-class to get dotted flat names, 1-5 equations over vf.gen.expr trees) are
printed (minimal or redundant parentheses), parsed, and handed to
pymoca.backends.xml.generator.generate.  The XML text must parse with lxml and
is then compared element by element with the expected flat model derived from
the ABSTRACT description (independent of tree.flatten); the order of components
and equations is additionally compared with pymoca's own flat class."""
from collections import Counter

from hypothesis import strategies as st

from vf.core import Violation, drive, guarded
from vf.gen import expr as X
from vf.ref import flat as F

ID = "C25"
LEVEL = "exploration"
RULE = (
    "model M with 2-6 elementary variables (Real/Integer/Boolean x continuous/discrete/parameter/constant, "
    "optional literal start, declaration value, fixed=true|false, signed literals labelled "
    "negative_literal_attr) and 0-2 instances of a sub-model S (1-3 variables, 0-2 equations) placed "
    "anywhere among the declarations; 1-4 equations in M whose sides are vf.gen.expr trees without "
    "if-expressions (unary +/-/not, + - * / ^ and element-wise forms, relations, and/or, 1-argument "
    "calls sin cos tan exp log sqrt abs, 2-argument calls min max atan2, Integer/Real/Boolean literals, "
    "der(x)); minimal or redundant parentheses, with or without spaces.  non-trivial = some flat equation "
    "has a side of expression depth >= 3 containing a unary operator (+, -, not); distinct = distinct abstract model."
)
ASSUMPTIONS = [
    "if-expressions, arrays, when-equations, functions and non-literal attribute values are outside the XML backend's subset (not named by the property; the backend has no handler)",
    "value-equal groupings of a leading sign, (-a)*b for -a*b, are accepted (that grouping is C03's subject): "
    "both trees are normalised by moving a unary +/- applied to a product/quotient onto its leftmost factor",
    "a literal is matched by value: <real value=v> with v denoting the same number, Boolean literals as "
    "<real value='True'|'False'> or <true/>/<false/>; a signed attribute literal may be <real value='-1'> or unary -/+ applied to <real>",
    "a declaration value of a non-parameter/constant variable is a flat equation `x = value` (tree.flatten moves it) and not a value item",
    "fixed is not named by the statement: only 'a fixed item with <true/> iff fixed=true was declared' is checked",
    "order of components/equations is the order in the flat class returned by a separate tree.flatten call (trusted here, C07 owns it)",
]

TYPES = ("Real", "Integer", "Boolean")
CFG_KW = dict(funcs2=["min", "max", "atan2"], allow_if=False, max_depth=4)
UNARY = ("neg", "pos", "not")
FEATURE = "negative_literal_attr"


# --------------------------------------------------------------------------
# abstract model -> text
# --------------------------------------------------------------------------
def lit_text(e):
    return X.to_modelica(e)


def decl_text(v):
    mods = []
    if v.get("start") is not None:
        mods.append("start = " + lit_text(v["start"]))
    if v.get("fixed") is not None:
        mods.append("fixed = " + ("true" if v["fixed"] else "false"))
    t = (v["var"] + " " if v["var"] else "") + v["type"] + " " + v["name"]
    if mods:
        t += "(" + ", ".join(mods) + ")"
    if v.get("value") is not None:
        t += " = " + lit_text(v["value"])
    return "  " + t + ";\n"


def eq_text(q, printer_bits, spaces):
    # one bit stream per equation side keeps the text a pure function of the case
    return "  %s = %s;\n" % (X.to_modelica(q[0], printer_bits, spaces), X.to_modelica(q[1], printer_bits, spaces))


def model_text(case):
    bits, spaces = case["bits"], case["spaces"]
    out = ""
    sub = case.get("sub")
    if sub:
        out += "model S\n" + "".join(decl_text(v) for v in sub["vars"])
        if sub["eqs"]:
            out += "equation\n" + "".join(eq_text(q, bits, spaces) for q in sub["eqs"])
        out += "end S;\n"
    out += "model M\n"
    for d in case["decls"]:
        out += ("  S %s;\n" % d["inst"]) if "inst" in d else decl_text(d)
    out += "equation\n" + "".join(eq_text(q, bits, spaces) for q in case["eqs"])
    out += "end M;\n"
    return out


# --------------------------------------------------------------------------
# abstract model -> expected flat model
# --------------------------------------------------------------------------
def rename(e, prefix):
    if e[0] == "var":
        return ["var", prefix + e[1]]
    return [e[0]] + [rename(c, prefix) if isinstance(c, list) else c for c in e[1:]]


def expected_flat(case):
    """([flat variable], [flat equation]) - equations in the order tree.flatten
    produces (instances' equations, own equations, declaration equations)."""
    vars_, sub_eqs, val_eqs = [], [], []
    for d in case["decls"]:
        if "inst" in d:
            p = d["inst"] + "."
            for v in case["sub"]["vars"]:
                vars_.append(dict(v, name=p + v["name"]))
            sub_eqs += [[rename(q[0], p), rename(q[1], p)] for q in case["sub"]["eqs"]]
        else:
            vars_.append(dict(d))
    for v in vars_:
        if v.get("value") is not None and v["var"] not in ("parameter", "constant"):
            val_eqs.append([["var", v["name"]], v["value"]])
            v["value"] = None
    return vars_, sub_eqs + [list(q) for q in case["eqs"]] + val_eqs


def lit_value(e):
    """Python value of a (signed) literal."""
    k = e[0]
    if k == "int":
        return int(e[1])
    if k == "real":
        return float(e[1])
    if k == "bool":
        return bool(e[1])
    if k == "neg":
        return -lit_value(e[1])
    if k == "pos":
        return +lit_value(e[1])
    raise ValueError(e)


def exp_tree(e):
    """Abstract expression -> expected element tree
    ("operator"|"apply", op, [kids]) | ("local", name) | ("lit", python value)."""
    k = e[0]
    if k == "var":
        return ("local", e[1])
    if k in ("int", "real", "bool"):
        return ("lit", lit_value(e))
    if k in ("neg", "pos"):
        return ("operator", "-" if k == "neg" else "+", [exp_tree(e[1])])
    if k == "not":
        return ("operator", "not", [exp_tree(e[1])])
    if k in ("bin", "rel"):
        return ("apply", e[1], [exp_tree(e[2]), exp_tree(e[3])])
    if k in ("and", "or"):
        return ("apply", k, [exp_tree(e[1]), exp_tree(e[2])])
    if k == "call":
        args = [exp_tree(a) for a in e[2:]]
        return ("operator" if len(args) == 1 else "apply", e[1], args)
    if k == "der":
        return ("operator", "der", [exp_tree(e[1])])
    raise ValueError("node outside the domain: %r" % (e,))


def norm(t):
    """Move a unary +/- applied to a product/quotient to its leftmost factor
    (pymoca reads -a*b as (-a)*b; value-equal, see ASSUMPTIONS)."""
    if t[0] in ("operator", "apply"):
        kids = [norm(c) for c in t[2]]
        if t[0] == "operator" and t[1] in ("+", "-") and len(kids) == 1:
            k = kids[0]
            if k[0] == "apply" and k[1] in X.MUL_OPS and len(k[2]) == 2:
                return ("apply", k[1], [norm(("operator", t[1], [k[2][0]])), k[2][1]])
        return (t[0], t[1], kids)
    return t


# --------------------------------------------------------------------------
# XML -> element tree
# --------------------------------------------------------------------------
def kids(el):
    return [c for c in el if isinstance(c.tag, str)]


def xml_tree(el):
    """Element -> the same tuple form as exp_tree; anything unexpected is kept
    verbatim as ("?", tag, attrib, n_children) so that it can never match."""
    a = dict(el.attrib)
    ch = kids(el)
    if el.tag == "local" and set(a) == {"name"} and not ch:
        return ("local", a["name"])
    if el.tag == "real" and set(a) == {"value"} and not ch:
        return ("real", a["value"])
    if el.tag in ("true", "false") and not a and not ch:
        return ("real", "True" if el.tag == "true" else "False")
    if el.tag == "operator" and set(a) == {"name"}:
        return ("operator", a["name"], [xml_tree(c) for c in ch])
    if el.tag == "apply" and set(a) == {"builtin"}:
        return ("apply", a["builtin"], [xml_tree(c) for c in ch])
    return ("?", el.tag, sorted(a.items()), len(ch))


def lit_matches(value, text):
    """Does the attribute text denote the literal's value?"""
    if isinstance(value, bool):
        return text in ("True", "False", "true", "false") and (text.lower() == "true") == value
    if text.strip().lower() in ("true", "false", ""):
        return False
    try:
        if isinstance(value, int):
            try:
                return int(text) == value
            except ValueError:
                return float(text) == value
        return float(text) == value
    except ValueError:
        return False


def mismatch(exp, got, path="."):
    """None if the (normalised) trees agree, else a short description."""
    if exp[0] == "lit":
        if got[0] == "real" and lit_matches(exp[1], got[1]):
            return None
        return "%s: expected literal %r, got %r" % (path, exp[1], got)
    if exp[0] == "local":
        return None if got == exp else "%s: expected %r, got %r" % (path, exp, got[:2])
    if got[0] != exp[0] or got[1] != exp[1]:
        return "%s: expected <%s %s>, got %r" % (path, exp[0], exp[1], got[:2])
    if len(got[2]) != len(exp[2]):
        return "%s: <%s %s> has %d children, expected %d" % (path, exp[0], exp[1], len(got[2]), len(exp[2]))
    for i, (a, b) in enumerate(zip(exp[2], got[2])):
        r = mismatch(a, b, "%s/%s[%d]" % (path, exp[1], i))
        if r:
            return r
    return None


def xml_canon(t):
    """Same s-expression form as vf.ref.flat.canon_ast (for the order check)."""
    if t[0] in ("local", "real"):
        return t[1]
    if t[0] in ("operator", "apply"):
        return "(%s %s)" % (t[1], " ".join(xml_canon(c) for c in t[2]))
    return "<%s>" % (t[1],)


def attr_value(el):
    """Value carried by the child of an <item>: <real>, <true/>, <false/> or a
    unary sign applied to one of them; raises ValueError otherwise."""
    t = xml_tree(el)

    def ev(t):
        if t[0] == "real":
            s = t[1]
            if s in ("True", "False"):
                return s == "True"
            try:
                return int(s)
            except ValueError:
                return float(s)
        if t[0] == "operator" and t[1] in ("+", "-") and len(t[2]) == 1:
            v = ev(t[2][0])
            if isinstance(v, bool):
                raise ValueError("sign applied to a Boolean")
            return -v if t[1] == "-" else v
        raise ValueError("not a literal: %r" % (t[:2],))

    return ev(t)


# --------------------------------------------------------------------------
# the check
# --------------------------------------------------------------------------
def depth(e):
    sub = [depth(c) for c in e[1:] if isinstance(c, list)]
    return 1 + max(sub) if sub else 0


def has_feature(case):
    vs = list(case.get("sub", {}).get("vars", [])) if case.get("sub") else []
    vs += [d for d in case["decls"] if "inst" not in d]
    for v in vs:
        if v.get("start") is not None and v["start"][0] in ("neg", "pos"):
            return True
        if v.get("value") is not None and v["value"][0] in ("neg", "pos") and v["var"] in ("parameter", "constant"):
            return True
    return False


def check_case(ctx, case):
    try:
        return _check_case(ctx, case)
    except Violation as v:
        if has_feature(case):
            v.kind += "+" + FEATURE
        raise


def _check_case(ctx, case):
    from lxml import etree
    from pymoca import ast, parser, tree
    from pymoca.backends.xml import generator

    text = model_text(case)
    t = guarded(parser.parse, text, bypass_cache=True, where="parse")
    if t is None:
        raise Violation("valid_text_rejected", "parse returned None for:\n" + text)
    out = guarded(generator.generate, t, "M", where="generate")
    if not isinstance(out, str):
        raise Violation("output_not_text", "generate returned %s" % type(out).__name__)
    try:
        root = etree.fromstring(out.encode("utf-8"))
    except etree.XMLSyntaxError as e:
        raise Violation("not_well_formed", "%s\n%s" % (e, text))
    defs = [c for c in root.iter("classDefinition")]
    if len(defs) != 1 or defs[0].get("name") != "M":
        raise Violation("class_definition", "classDefinition elements: %r\n%s" % ([d.get("name") for d in defs], text))
    classes = [c for c in kids(defs[0]) if c.tag == "class"]
    if len(classes) != 1:
        raise Violation("class_definition", "%d <class> elements in the classDefinition" % len(classes))
    cls = classes[0]
    exp_vars, exp_eqs = expected_flat(case)

    # ---- components -------------------------------------------------------
    comps = [c for c in kids(cls) if c.tag == "component"]
    got_names = [c.get("name") for c in comps]
    exp_names = [v["name"] for v in exp_vars]
    if Counter(got_names) != Counter(exp_names):
        raise Violation(
            "component_names",
            "components %r, flat variables %r\n%s" % (got_names, exp_names, text),
        )
    by_name = {c.get("name"): c for c in comps}
    for v in exp_vars:
        c = by_name[v["name"]]
        b = [k for k in kids(c) if k.tag == "builtin"]
        if len(b) != 1 or b[0].get("name") != v["type"]:
            raise Violation("component_type", "%s: builtin %r expected %s\n%s" % (v["name"], [k.get("name") for k in b], v["type"], text))
        if c.get("variability") != (v["var"] or None) and not (v["var"] == "" and c.get("variability") == "continuous"):
            raise Violation(
                "component_variability:" + (v["var"] or "continuous"),
                "%s: variability %r expected %r\n%s" % (v["name"], c.get("variability"), v["var"] or None, text),
            )
        items = [i for m in kids(c) if m.tag == "modifier" for i in kids(m) if i.tag == "item"]
        names = [i.get("name") for i in items]
        if len(set(names)) != len(names):
            raise Violation("duplicate_item", "%s: items %r\n%s" % (v["name"], names, text))
        item = dict(zip(names, items))
        for f in ("start", "value"):
            want = v.get(f)
            if want is None:
                if f in item:
                    raise Violation("item_not_declared:" + f, "%s: %s item %s but nothing declared\n%s" % (
                        v["name"], f, etree.tostring(item[f]).decode()[:200], text))
                continue
            if f not in item:
                raise Violation("item_missing:" + f, "%s: %s = %s declared, no item\n%s" % (v["name"], f, lit_text(want), text))
            ch = kids(item[f])
            try:
                if len(ch) != 1:
                    raise ValueError("%d children" % len(ch))
                got = attr_value(ch[0])
            except ValueError as e:
                raise Violation("item_not_literal:" + f, "%s: %s item: %s\n%s" % (v["name"], f, e, text))
            wv = lit_value(want)
            if isinstance(got, bool) != isinstance(wv, bool) or got != wv:
                raise Violation("item_value:" + f, "%s: %s item carries %r, declared %s\n%s" % (v["name"], f, got, lit_text(want), text))
        fx = item.get("fixed")
        says_true = fx is not None and [k.tag for k in kids(fx)] == ["true"]
        says_false = fx is None or [k.tag for k in kids(fx)] == ["false"]
        if (v.get("fixed") is True and not says_true) or (v.get("fixed") is not True and not says_false):
            raise Violation("fixed_item", "%s: fixed=%r declared, item %s\n%s" % (
                v["name"], v.get("fixed"), None if fx is None else etree.tostring(fx).decode()[:120], text))

    # ---- equations ----------------------------------------------------------
    sections = [c for c in kids(cls) if c.tag == "equation"]
    if len(sections) != 1:
        raise Violation("equation_section", "%d <equation> elements\n%s" % (len(sections), text))
    eqs = kids(sections[0])
    if len(eqs) != len(exp_eqs):
        raise Violation("equation_count", "%d equation elements, %d flat equations\n%s\n%s" % (len(eqs), len(exp_eqs), out[-600:], text))
    got_trees = []
    for i, q in enumerate(eqs):
        sides = kids(q)
        if q.tag != "equal" or len(sides) != 2:
            raise Violation(
                "equation_shape",
                "equation %d is <%s> with %d children (flat equation %s)\n%s" % (i, q.tag, len(sides), F.canon_eq_abs(exp_eqs[i]), text),
            )
        got_trees.append([xml_tree(sides[0]), xml_tree(sides[1])])
    # content: every expected flat equation is matched by a distinct element (abstract oracle);
    # tried in order first, so that the common case is linear
    unmatched = list(range(len(got_trees)))
    first_problem = None
    for i, q in enumerate(exp_eqs):
        want = [norm(exp_tree(q[0])), norm(exp_tree(q[1]))]
        hit = None
        for j in ([i] if i in unmatched else []) + [u for u in unmatched if u != i]:
            g = got_trees[j]
            r = mismatch(want[0], norm(g[0]), "lhs") or mismatch(want[1], norm(g[1]), "rhs")
            if r is None:
                hit = j
                break
            if j == i and first_problem is None:
                first_problem = (i, r)
        if hit is None:
            i0, r = first_problem if first_problem else (i, "no element matches")
            raise Violation(
                "equation_tree",
                "flat equation %s has no matching element; element %d: %s\n%s" % (F.canon_eq_abs(q), i0, r, text),
            )
        unmatched.remove(hit)

    # ---- order: the flat class pymoca itself produces ---------------------------
    t2 = guarded(parser.parse, text, bypass_cache=True, where="parse")
    flat = guarded(tree.flatten, t2, ast.ComponentRef.from_string("M"), where="flatten").classes["M"]
    flat_names = list(flat.symbols.keys())
    if sorted(flat_names) == sorted(exp_names) and got_names != flat_names:
        raise Violation("component_order", "components %r, flat variables %r\n%s" % (got_names, flat_names, text))
    flat_eqs = [F.canon_ast(q) for q in flat.equations]
    got_eqs = ["(= %s %s)" % (xml_canon(g[0]), xml_canon(g[1])) for g in got_trees]
    if Counter(flat_eqs) == Counter(got_eqs) and flat_eqs != got_eqs:
        raise Violation("equation_order", "equation elements %r, flat equations %r\n%s" % (got_eqs, flat_eqs, text))
    if Counter(flat_eqs) != Counter(got_eqs):
        ctx.extra["flat_canon_differs_from_xml_canon"] += 1  # literal spelling only; content was checked above

    return classify(case, exp_vars, exp_eqs, text)


def classify(case, exp_vars, exp_eqs, text):
    labels = set()
    labels.add("printer:" + ("redundant" if case["bits"] else "minimal"))
    if not case["spaces"]:
        labels.add("printer:no_spaces")
    for v in exp_vars:
        labels.add("variability:" + (v["var"] or "continuous"))
        labels.add("type:" + v["type"])
        if "." in v["name"]:
            labels.add("dotted_name")
        if v.get("start") is not None:
            labels.add("attr:start")
            if lit_value(v["start"]) == 0 and v["start"][0] != "bool":
                labels.add("attr:start_zero")
            if v["start"][0] == "bool":
                labels.add("attr:start_false" if not v["start"][1] else "attr:start_true")
        if v.get("value") is not None:
            labels.add("attr:value")
        if v.get("fixed") is not None:
            labels.add("attr:fixed_" + ("true" if v["fixed"] else "false"))
    if has_feature(case):
        labels.add(FEATURE)
    if len(exp_eqs) > len(case["eqs"]) + sum(len(case["sub"]["eqs"]) for d in case["decls"] if "inst" in d):
        labels.add("declaration_equation")
    labels.add("instances:%d" % sum(1 for d in case["decls"] if "inst" in d))
    labels.add("flat_equations:%s" % (len(exp_eqs) if len(exp_eqs) < 6 else "6+"))
    nontrivial = False
    for q in exp_eqs:
        for side in q:
            ops = X.operators(side)
            for n in X.walk(side):
                k = n[0]
                if k == "neg":
                    labels.add("op:unary_minus")
                elif k == "pos":
                    labels.add("op:unary_plus")
                elif k == "not":
                    labels.add("op:not")
                elif k == "bin":
                    labels.add("op:elementwise" if n[1].startswith(".") else "op:arithmetic")
                elif k == "rel":
                    labels.add("op:relation")
                elif k in ("and", "or"):
                    labels.add("op:and_or")
                elif k == "call":
                    labels.add("call:%d_arg" % (len(n) - 2))
                elif k == "der":
                    labels.add("der")
                elif k in ("int", "real", "bool"):
                    labels.add("literal:" + k)
                    if k == "bool" and not n[1]:
                        labels.add("literal:false")
            if depth(side) >= 3 and any(o in UNARY for o in ops):
                nontrivial = True
    if nontrivial:
        labels.add("nontrivial")
    return dict(nontrivial=nontrivial, labels=sorted(labels), sample={"text": text})


# --------------------------------------------------------------------------
# generator
# --------------------------------------------------------------------------
INT_LITS = [0, 0, 1, 2, 3, 7, 10]
REAL_LITS = X.REAL_LITS + ["0.0", "0.", "1e-3", "12.75"]


@st.composite
def literal(draw, typ, signed_ok):
    if typ == "Boolean":
        return ["bool", draw(st.booleans())]
    if typ == "Integer" or draw(st.integers(0, 2)) == 0:
        e = ["int", draw(st.sampled_from(INT_LITS))]
    else:
        e = ["real", draw(st.sampled_from(REAL_LITS))]
    if signed_ok and draw(st.integers(0, 3)) == 0:
        e = [draw(st.sampled_from(["neg", "neg", "pos"])), e]
    return e


@st.composite
def variable(draw, name, signed_attr, force=None):
    typ, var = force or (
        draw(st.sampled_from(["Real", "Real", "Real", "Integer", "Boolean"])),
        draw(st.sampled_from(["", "", "discrete", "parameter", "constant"])),
    )
    v = {"name": name, "type": typ, "var": var, "start": None, "value": None, "fixed": None}
    is_par = var in ("parameter", "constant")
    if draw(st.integers(0, 2)) == 0:
        v["start"] = draw(literal(typ, signed_attr))
    if var == "constant" or (is_par and draw(st.integers(0, 3)) != 0) or (not is_par and draw(st.integers(0, 5)) == 0):
        # a declaration equation of a non-parameter becomes a flat equation: signs are fine there
        v["value"] = draw(literal(typ, signed_attr or not is_par))
    if draw(st.integers(0, 3)) == 0:
        v["fixed"] = draw(st.booleans())
    return v


def cfg_for(vs):
    num = [v["name"] for v in vs if v["type"] != "Boolean"]
    boo = [v["name"] for v in vs if v["type"] == "Boolean"]
    return X.Cfg(vars_=num, bool_vars=boo, **CFG_KW)


@st.composite
def equation(draw, vs):
    cfg = cfg_for(vs)
    states = [["var", v["name"]] for v in vs if v["type"] == "Real" and v["var"] == ""]
    num = [["var", n] for n in cfg.vars]
    boo = [["var", n] for n in cfg.bool_vars]
    d = draw(st.integers(1, 4))
    if draw(st.integers(0, 3)) == 0:
        lhs = draw(st.sampled_from(boo)) if boo and draw(st.booleans()) else draw(X.bool_expr(cfg, 2))
        return [lhs, draw(X.bool_expr(cfg, 3))]
    k = draw(st.integers(0, 5))
    rhs = draw(X.num_expr(cfg, d))
    if k <= 1 and states:
        lhs = ["der", draw(st.sampled_from(states))]
    elif k <= 3 and num:
        lhs = draw(st.sampled_from(num))
    else:
        lhs = draw(X.num_expr(cfg, 2))
    if states and draw(st.integers(0, 5)) == 0:
        rhs = ["bin", draw(st.sampled_from(["+", "-", "*"])), rhs, ["der", draw(st.sampled_from(states))]]
    return [lhs, rhs]


@st.composite
def case_strategy(draw, ctx=None):
    known = ctx is not None and ctx.known(FEATURE)
    signed = not known
    if known:
        ctx.exclude(FEATURE)
    sub = None
    n_inst = draw(st.sampled_from([0, 1, 1, 2]))
    if n_inst:
        svars = [draw(variable("v%d" % (i + 1), signed, ("Real", "") if i == 0 else None)) for i in range(draw(st.integers(1, 3)))]
        sub = {"vars": svars, "eqs": [draw(equation(svars)) for _ in range(draw(st.integers(0, 2)))]}
    n_own = draw(st.integers(2, 6))
    decls = [draw(variable("v%d" % (i + 1) if i % 2 == 0 else "w%d" % i, signed, ("Real", "") if i == 0 else None)) for i in range(n_own)]
    visible = list(decls)
    for name in ["a", "s"][:n_inst]:
        pos = draw(st.integers(0, len(decls)))
        decls.insert(pos, {"inst": name})
        visible += [dict(v, name=name + "." + v["name"]) for v in sub["vars"]]
    eqs = [draw(equation(visible)) for _ in range(draw(st.integers(1, 4)))]
    redundant = draw(st.booleans())
    bits = draw(st.lists(st.integers(0, 3), min_size=8, max_size=40)) if redundant else []
    return {"sub": sub, "decls": decls, "eqs": eqs, "bits": bits, "spaces": draw(st.integers(0, 3)) != 0}


def shard(ctx):
    drive(ctx, case_strategy(ctx), check_case, ctx.share(500, 30000))


def replay(ctx, case):
    check_case(ctx, case)


MANIFEST = dict(
    text="Generated shallow flat models (every type x variability, literal start/value/fixed incl. signed "
    "literals, dotted names from sub-model instances, equations over unary/binary/element-wise operators, "
    "relations, and/or/not, 1- and 2-argument calls, der, all literal kinds, minimal and redundant "
    "parentheses) are translated by the XML backend; the text must be well-formed and its component and "
    "equation elements must match, element by element and operand by operand, the flat model derived from "
    "the abstract description; order is compared with pymoca's own flat class.  Sampling, depth <= 5.",
    note="Trusts lxml, the vf.gen.expr printer and the 40-line expected-flat-model derivation; value-equal "
    "sign groupings ((-a)*b for -a*b) are normalised away; if-expressions/arrays/when are outside the backend's subset.",
    technique="property-based differential testing against a reference model of the expected XML structure",
)
