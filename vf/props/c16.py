"""C16 - Alias elimination merges variable metadata soundly.

Generator "G-dae-alias": flat models with 1-2 alias chains of 2-5 variables.
Every new chain member is linked to an already placed one (chain, star or
tree) by one of the alias equation forms `a = b`, `b = a`, `a = -b`,
`a + b = 0`, `a - b = 0` (either variable in either role).  At most one chain
member is a differentiated state or an input (that one has to survive); all
others are algebraic.  Every member gets drawn min/max/nominal/fixed/start.
Attribute values are Real/Integer literals or multiples of a parameter p0.
The expected signed partition and the expected merged attributes are computed
from the ABSTRACT case, never from pymoca's pre-simplification model."""
import math

from hypothesis import strategies as st

from vf import env as venv
from vf.core import Violation, drive, guarded, isclose
from vf.gen import dae as D

ID = "C16"
LEVEL = "exploration"
RULE = (
    "flat models with 1-2 alias chains of 2-5 variables (chain/star/tree: each new member links to a drawn "
    "earlier member) by `a = b`, `b = a`, `a = -b`, `b = -a`, `a + b = 0`, `a - b = 0` (both role orders), "
    "equations and declarations in drawn order; per chain at most one non-algebraic member (a differentiated "
    "state or an input, at a drawn position) else all algebraic; each member with drawn min <= max or "
    "one-sided/unspecified bounds, nominal >= 0 or unspecified, fixed true/false/unspecified, explicit start "
    "(consistent up to sign with the other members, or conflicting) or none; values in -4..4 step 0.5 as "
    "Real or Integer literals or (in a third of the chains) as multiples `k * p0` of a parameter p0 = 0.5; "
    "options detect_aliases plus drawn expand_mx / expand_vectors / iterative_simplification.  non-trivial = some chain with >= 3 members and >= 1 negative link; "
    "distinct = distinct (model, options)."
)
ASSUMPTIONS = [
    "which member of an all-algebraic chain becomes canonical is not specified: whichever single member pymoca keeps is accepted",
    "a chain's state/input member must be the survivor (pymoca only eliminates algebraic variables)",
    "attributes may come back as float, casadi.DM or casadi.MX (constant, or an expression in the parameter p0) and are compared numerically (atol/rtol 1e-9) at p0 = 0.5 (declared) and p0 = 0.75; fixed is compared by truthiness",
    "an exception from simplify on a generated model is a violation: the statement promises a merged result (in particular 'that start is kept')",
    "when the canonical variable has no explicit start, any alias's sign-adjusted explicit start is accepted",
    "warnings about conflicting start values are expected behaviour (only labelled)",
    "python_type merging and variable order are not asserted (the statement is silent)",
]
SOFT_BUDGET_S = {"quick": 120, "thorough": 3000}

VALS = [x * 0.5 for x in range(-8, 9)]
NOMS = [0.0, 0.5, 1.0, 2.0, 2.5, 10.0]
NAMES = ["a", "b", "c", "d", "f", "g", "h", "k", "m", "n", "p", "q", "aa", "x1", "y_2", "zz"]
# form -> sign of the link (new = sign * old)
FORMS = {"eq": 1, "eq_rev": 1, "diff0": 1, "diff0_rev": 1, "neg": -1, "neg_rev": -1, "sum0": -1, "sum0_rev": -1}
INF = float("inf")
P0 = 0.5  # declared value of the parameter used in symbolic attribute expressions


# ------------------------------------------------------------------ generator
def lit(v, style="real"):
    v = float(v)
    if v < 0 or (v == 0 and math.copysign(1.0, v) < 0):
        return ["neg", lit(-v, style)]
    if style == "sym":
        k = int(round(v / P0))
        return ["var", "p0"] if k == 1 else ["bin", "*", ["int", k], ["var", "p0"]]
    if style == "int" and v == int(v):
        return ["int", int(v)]
    return ["real", repr(v)]


def link_eq(a, b, form):
    """Equation node for `a` (new member) linked to `b` (placed member)."""
    A, B = ["var", a], ["var", b]
    if form == "eq":
        return ["eq", A, B]
    if form == "eq_rev":
        return ["eq", B, A]
    if form == "neg":
        return ["eq", A, ["neg", B]]
    if form == "neg_rev":
        return ["eq", B, ["neg", A]]
    if form == "sum0":
        return ["eq", ["bin", "+", A, B], ["int", 0]]
    if form == "sum0_rev":
        return ["eq", ["bin", "+", B, A], ["int", 0]]
    if form == "diff0":
        return ["eq", ["bin", "-", A, B], ["int", 0]]
    if form == "diff0_rev":
        return ["eq", ["bin", "-", B, A], ["int", 0]]
    raise ValueError(form)


@st.composite
def member_attrs(draw, sign_to_root, base_start, force_start=None, sym_chain=False):
    a = {"min": None, "max": None, "nominal": None, "fixed": None, "start": None}
    bk = draw(st.sampled_from(["none", "min", "max", "both", "both", "both"]))
    # mostly ranges around 0 (a family closed under negation, so that intersections along a signed
    # chain are usually non-empty and every member can be the binding one); sometimes anywhere
    wide = draw(st.integers(0, 3)) == 0
    los = VALS if wide else [v for v in VALS if v <= 0.5]
    his = VALS if wide else [v for v in VALS if v >= -0.5]
    if bk == "min":
        a["min"] = draw(st.sampled_from(los))
    elif bk == "max":
        a["max"] = draw(st.sampled_from(his))
    elif bk == "both":
        lo, hi = sorted([draw(st.sampled_from(los)), draw(st.sampled_from(his))])
        a["min"], a["max"] = lo, hi
    if draw(st.integers(0, 2)) > 0:
        a["nominal"] = draw(st.sampled_from(NOMS))
    a["fixed"] = draw(st.sampled_from([None, None, True, False]))
    sk = draw(st.sampled_from(["none", "consistent", "random"])) if force_start is None else force_start
    if sk == "consistent":
        a["start"] = sign_to_root * base_start
    elif sk == "random":
        a["start"] = draw(st.sampled_from(VALS))
    # literal style per attribute: Real literal, Integer literal (when integral) or a multiple of the
    # parameter p0 = 0.5 (every drawn value is a multiple of 0.5), i.e. a symbolic attribute expression
    base = draw(st.sampled_from(["real", "int"]))
    symbolic = sym_chain and draw(st.integers(0, 3)) > 0
    a["style"] = {}
    for key in ("min", "max", "nominal", "start"):
        a["style"][key] = "sym" if symbolic and draw(st.integers(0, 2)) > 0 else base
    return a


@st.composite
def case_strategy(draw):
    nchains = draw(st.sampled_from([1, 1, 2]))
    names = list(draw(st.permutations(NAMES)))
    vars_, chains, eqs = [], [], []
    for ci in range(nchains):
        k = draw(st.sampled_from([2, 3, 3, 4, 4, 5]))
        members = [names.pop() for _ in range(k)]
        special = draw(st.sampled_from(["state", "input", "alg", "alg"]))
        special_pos = draw(st.integers(0, k - 1)) if special != "alg" else None
        shape = draw(st.sampled_from(["chain", "star", "tree", "tree"]))
        links, sign = [], {members[0]: 1}
        for j in range(1, k):
            if shape == "chain":
                old = members[j - 1]
            elif shape == "star":
                old = members[0]
            else:
                old = members[draw(st.integers(0, j - 1))]
            form = draw(st.sampled_from(sorted(FORMS)))
            links.append([members[j], old, form])
            sign[members[j]] = sign[old] * FORMS[form]
            eqs.append(link_eq(members[j], old, form))
        base_start = draw(st.sampled_from([v for v in VALS if v != 0]))
        # start scenario: steer some chains so that every quantified start situation is frequent
        scen = draw(st.sampled_from(["free", "free", "only_aliases", "canonical_and_conflict", "none"]))
        # chains whose attributes are (mostly) expressions in the parameter p0
        sym_chain = draw(st.integers(0, 2)) == 0
        for j, nm in enumerate(members):
            kind = special if j == special_pos else "alg"
            force = None
            if scen == "none":
                force = "none"
            elif scen == "only_aliases" and kind != "alg":
                force = "none"
            elif scen == "canonical_and_conflict" and kind != "alg":
                force = draw(st.sampled_from(["consistent", "random"]))
            at = draw(member_attrs(sign[nm], base_start, force, sym_chain))
            vars_.append(dict(at, name=nm, kind=kind))
        # remaining equations so that the model is square
        if special == "state":
            x = members[special_pos]
            dform = draw(st.sampled_from(["lin", "time", "uf"]))
            X_ = ["var", x]
            if dform == "lin":
                rhs = ["bin", "-", ["real", "1.0"], ["bin", "*", ["real", "2.0"], X_]]
            elif dform == "time":
                rhs = ["bin", "*", ["real", "0.5"], ["time"]]
            else:
                rhs = ["bin", "*", ["var", "uf"], ["real", "2.0"]]
            eqs.append(["eq", ["der", X_], rhs])
        elif special == "alg":
            mvar = ["var", members[draw(st.integers(0, k - 1))]]
            dform = draw(st.sampled_from(["affine", "time", "uf", "square"]))
            kk = draw(st.sampled_from([["real", "2.0"], ["real", "0.5"], ["int", 3]]))
            if dform == "affine":
                eqs.append(["eq", ["bin", "+", ["bin", "*", kk, mvar], ["real", "1.5"]], ["real", "3.0"]])
            elif dform == "time":
                eqs.append(["eq", ["bin", "+", mvar, ["bin", "*", kk, ["time"]]], ["real", "3.0"]])
            elif dform == "uf":
                eqs.append(["eq", mvar, ["bin", "+", ["bin", "*", kk, ["var", "uf"]], ["real", "1.0"]]])
            else:
                eqs.append(["eq", ["bin", "*", mvar, mvar], ["bin", "+", ["real", "4.0"], ["time"]]])
        chains.append({"members": members, "links": links, "special": special, "shape": shape, "start_scenario": scen})
    # noise: a free input and (sometimes) an unrelated algebraic variable with attributes of its own
    plain = {k: "real" for k in ("min", "max", "nominal", "start")}
    noise = [{"name": "uf", "kind": "input", "min": -1.0, "max": 1.0, "nominal": None, "fixed": None, "start": None, "style": plain},
             {"name": "p0", "kind": "parameter", "min": None, "max": None, "nominal": None, "fixed": None, "start": None, "style": plain}]
    if draw(st.booleans()):
        noise.append({"name": "w", "kind": "alg", "min": -3.5, "max": 3.5, "nominal": 4.0, "fixed": None, "start": 0.25, "style": plain})
        eqs.append(["eq", ["var", "w"], ["bin", "+", ["bin", "*", ["real", "2.0"], ["time"]], ["var", "uf"]]])
    vars_ = list(draw(st.permutations(vars_ + noise)))
    eqs = list(draw(st.permutations(eqs)))
    opts = {"detect_aliases": True}
    ok = draw(st.integers(0, 7))
    if ok in (1, 2):
        opts["expand_mx"] = True
    elif ok == 3:
        opts["expand_vectors"] = True
    elif ok == 4:
        opts["expand_vectors"] = True
        opts["expand_mx"] = True
    elif ok == 5:
        opts["iterative_simplification"] = True
    return {"vars": vars_, "chains": chains, "eqs": eqs, "options": opts}


# ------------------------------------------------------------------ printing
def to_model(case):
    vs = []
    for v in case["vars"]:
        attrs = {}
        for key in ("min", "max", "nominal", "start"):
            if v[key] is not None:
                attrs[key] = lit(v[key], v["style"][key])
        if v["fixed"] is not None:
            attrs["fixed"] = ["bool", bool(v["fixed"])]
        # drawn attribute order would be nice-to-have; declaration order is irrelevant to the statement
        if v["kind"] == "parameter":
            vs.append(D.var(v["name"], prefix="parameter", value=["real", repr(P0)]))
        else:
            vs.append(D.var(v["name"], prefix="input" if v["kind"] == "input" else "", attrs=attrs))
    return {"name": "M", "n": 2, "m": 2, "vars": vs, "funcs": [], "eqs": case["eqs"], "ieqs": []}


# ------------------------------------------------------------------ oracle
def num(x, what, psym, pval):
    """float / int / _DefaultValue / DM / MX (constant or a function of the parameter p0) -> float."""
    import casadi as ca

    if isinstance(x, ca.MX):
        free = [sv.name() for sv in ca.symvar(x)]
        if any(nm != "p0" for nm in free):
            raise Violation("attribute_depends_on_variables", "%s = %s" % (what, x))
        x = ca.Function("attr", [psym], [x]).call([ca.DM(pval)])[0]
    if isinstance(x, (ca.DM, ca.SX)):
        x = ca.DM(x)
        if x.numel() != 1:
            raise Violation("attribute_not_scalar", "%s has shape %r" % (what, x.shape))
        return float(x)
    return float(x)


def aval(v, key, pval):
    """Abstract attribute value at parameter value pval (None = unspecified)."""
    if v[key] is None:
        return None
    return v[key] / P0 * pval if v["style"][key] == "sym" else v[key]


def signs_of(chain):
    sign = {chain["members"][0]: 1}
    for new, old, form in chain["links"]:
        sign[new] = sign[old] * FORMS[form]
    return sign


def expected(chain, attrs0, c, pval=P0):
    """Expected merged attributes of canonical c at parameter value pval, from the abstract attributes."""
    sign = signs_of(chain)
    rel = {m: sign[m] * sign[c] for m in chain["members"]}
    attrs = {m: {"min": aval(attrs0[m], "min", pval), "max": aval(attrs0[m], "max", pval),
                 "nominal": aval(attrs0[m], "nominal", pval), "start": aval(attrs0[m], "start", pval),
                 "fixed": attrs0[m]["fixed"]} for m in chain["members"]}
    lo = -INF if attrs[c]["min"] is None else attrs[c]["min"]
    hi = INF if attrs[c]["max"] is None else attrs[c]["max"]
    nominal = 0.0 if attrs[c]["nominal"] is None else attrs[c]["nominal"]
    fixed = bool(attrs[c]["fixed"])
    alias_starts = []
    for m in chain["members"]:
        if m == c:
            continue
        a = attrs[m]
        amin = -INF if a["min"] is None else a["min"]
        amax = INF if a["max"] is None else a["max"]
        if rel[m] > 0:
            lo, hi = max(lo, amin), min(hi, amax)
        else:
            lo, hi = max(lo, -amax), min(hi, -amin)
        nominal = max(nominal, 0.0 if a["nominal"] is None else a["nominal"])
        fixed = fixed or bool(a["fixed"])
        if a["start"] is not None:
            alias_starts.append(rel[m] * a["start"])
    if attrs[c]["start"] is not None:
        starts = [attrs[c]["start"]]
    elif alias_starts:
        starts = alias_starts
    else:
        starts = [0.0]
    return {"min": lo, "max": hi, "nominal": nominal, "fixed": fixed, "starts": starts, "rel": rel}


def check_case(ctx, case):
    import casadi as ca
    from pymoca import parser
    from pymoca.backends.casadi import generator

    text = D.print_model(to_model(case))
    opts = dict(case["options"])
    tail = "\noptions=%r\n%s" % (opts, text)
    tree = guarded(parser.parse, text, bypass_cache=True, where="parse")
    if tree is None:
        raise Violation("valid_text_rejected", text)
    model = guarded(generator.generate, tree, "M", dict(opts), where="generate")
    with venv.LogCapture() as log:
        guarded(model.simplify, dict(opts), where="simplify")
    conflict_warned = any("conflicts with" in r.getMessage() for r in log.records)
    attrs = {v["name"]: v for v in case["vars"]}
    groups = [("states", model.states), ("alg_states", model.alg_states), ("inputs", model.inputs)]
    where = {}
    for gi, (gname, vs) in enumerate(groups):
        for ri, v in enumerate(vs):
            nm = v.symbol.name()
            if nm in where:
                raise Violation("variable_listed_twice", "%s%s" % (nm, tail))
            where[nm] = (gi, ri, v)
    if [v.symbol.name() for v in model.parameters] != ["p0"]:
        raise Violation("parameter_list_changed", "%r%s" % ([v.symbol.name() for v in model.parameters], tail))
    psym = model.parameters[0].symbol
    # attributes may be expressions in p0: everything is compared at the declared value and at a second one
    pvals = [P0, 0.75]
    try:
        fmeta = model.variable_metadata_function
        metas = [fmeta.call([ca.DM(pv)]) for pv in pvals]
    except Exception as e:  # noqa: BLE001
        raise Violation("metadata_function:" + type(e).__name__, str(e)[:300] + tail)
    ar = model.alias_relation
    labels = ["opt:" + k for k in sorted(opts) if k != "detect_aliases"] or ["opt:detect_aliases_only"]
    nontrivial = False
    for chain in case["chains"]:
        members = chain["members"]
        sign = signs_of(chain)
        nneg = sum(1 for _, _, f in chain["links"] if FORMS[f] < 0)
        labels += ["len:%d" % len(members), "canonical:" + chain["special"], "shape:" + chain["shape"],
                   "neg_links:%d" % min(nneg, 2)]
        labels += sorted({"form:" + f.replace("_rev", "") for _, _, f in chain["links"]})
        if len(members) >= 3 and nneg >= 1:
            nontrivial = True
        # ---- (1) the alias relation is the generated signed partition
        left = [m for m in members if m in where]
        if len(left) != 1:
            raise Violation("partition:survivors", "chain %r: %d members remain in the variable lists (%r), expected exactly one%s"
                            % (members, len(left), left, tail))
        c = left[0]
        special = [m for m in members if attrs[m]["kind"] != "alg"]
        if special and c != special[0]:
            raise Violation("partition:non_algebraic_member_eliminated", "chain %r keeps %s, not the %s %s%s"
                            % (members, c, attrs[special[0]]["kind"], special[0], tail))
        exp = expected(chain, attrs, c)
        exp_aliases = {(m if exp["rel"][m] > 0 else "-" + m) for m in members}
        got_aliases = set(ar.aliases(c))
        if got_aliases != exp_aliases:
            raise Violation("partition:signed_aliases", "aliases(%s) = %r, expected %r%s" % (c, sorted(got_aliases), sorted(exp_aliases), tail))
        if c not in ar.canonical_variables or any(m in ar.canonical_variables for m in members if m != c):
            raise Violation("partition:canonical_variables", "canonical variables %r, chain %r survivor %s%s"
                            % (sorted(ar.canonical_variables), members, c, tail))
        gi, ri, var = where[c]
        if set(var.aliases) != exp_aliases - {c}:
            raise Violation("partition:variable_aliases_attribute", "%s.aliases = %r, expected %r%s" % (c, sorted(var.aliases), sorted(exp_aliases - {c}), tail))
        # ---- (2) merged attributes
        own_start = attrs[c]["start"] is not None
        alias_start = any(attrs[m]["start"] is not None for m in members if m != c)
        labels.append("start:" + ("own+alias" if own_start and alias_start else "own" if own_start else "from_alias" if alias_start else "default"))
        if own_start and alias_start and any(not isclose(s_, attrs[c]["start"]) for s_ in
                                             [exp["rel"][m] * attrs[m]["start"] for m in members if m != c and attrs[m]["start"] is not None]):
            labels.append("start:conflicting")
        if len({round(s_, 9) + 0.0 for s_ in exp["starts"]}) > 1:
            labels.append("start:several_alias_candidates")
        if exp["min"] > exp["max"]:
            labels.append("bounds:empty_intersection")
        elif any(attrs[m]["min"] is not None or attrs[m]["max"] is not None for m in members if m != c):
            cmin = -INF if attrs[c]["min"] is None else attrs[c]["min"]
            cmax = INF if attrs[c]["max"] is None else attrs[c]["max"]
            if exp["min"] > cmin or exp["max"] < cmax:
                labels.append("bounds:tightened_by_alias")
        if any(attrs[m]["fixed"] for m in members if m != c) and not attrs[c]["fixed"]:
            labels.append("fixed:from_alias")
        if exp["nominal"] > (attrs[c]["nominal"] or 0.0):
            labels.append("nominal:from_alias")
        symb = {key for m in members for key in ("min", "max", "nominal", "start")
                if attrs[m][key] is not None and attrs[m]["style"][key] == "sym"}
        labels += ["symbolic:" + ("bounds" if key in ("min", "max") else key) for key in sorted(symb)]
        if "start" in symb and own_start and alias_start:
            labels.append("symbolic:start_own+alias")
        for pi, pv in enumerate(pvals):
            e = exp if pi == 0 else expected(chain, attrs, c, pv)
            got = {k: num(getattr(var, k), "%s.%s" % (c, k), psym, pv) for k in ("min", "max", "nominal", "fixed", "start")}
            row = metas[pi][gi]
            if row.shape != (len(groups[gi][1]), 6):
                raise Violation("metadata_function:shape", "output %d has shape %r%s" % (gi, row.shape, tail))
            got_meta = {k: float(row[ri, col]) for k, col in (("min", 1), ("max", 2), ("start", 3), ("fixed", 4), ("nominal", 5))}
            at = "" if pi == 0 else "@other_parameter_value"
            for src, g in (("attribute", got), ("metadata_function", got_meta)):
                detail = "%s of canonical %s (aliases %r) at p0=%r: got %r, expected min=%r max=%r nominal=%r fixed=%r start in %r%s" % (
                    src, c, sorted(exp_aliases - {c}), pv, g, e["min"], e["max"], e["nominal"], e["fixed"], e["starts"], tail)
                if not isclose(g["min"], e["min"]):
                    raise Violation("merge:min[%s]%s" % (src, at), detail)
                if not isclose(g["max"], e["max"]):
                    raise Violation("merge:max[%s]%s" % (src, at), detail)
                if not isclose(g["nominal"], e["nominal"]):
                    raise Violation("merge:nominal[%s]%s" % (src, at), detail)
                if math.isnan(g["fixed"]) or bool(g["fixed"]) != e["fixed"]:
                    raise Violation("merge:fixed[%s]%s" % (src, at), detail)
                if not any(isclose(g["start"], s_) for s_ in e["starts"]):
                    kind = "own_start_not_kept" if own_start else "alias_start" if alias_start else "default_start"
                    raise Violation("merge:start:%s[%s]%s" % (kind, src, at), detail)
    if conflict_warned:
        labels.append("conflicting_start_warning")
    labels.append("chains:%d" % len(case["chains"]))
    return dict(nontrivial=nontrivial, labels=labels, sample={"text": text, "options": opts})


def shard(ctx):
    drive(ctx, case_strategy(), check_case, ctx.share(1200, 40000))


def replay(ctx, case):
    check_case(ctx, case)


MANIFEST = dict(
    text="Generated models with signed alias chains (state, input or all-algebraic canonical; chain, star and "
    "tree link shapes; all five equation spellings) and random bounds/nominal/fixed/start are simplified with "
    "detect_aliases; the resulting alias relation must be exactly the generated signed partition and the "
    "surviving variable's min/max/nominal/fixed/start (attributes and variable_metadata_function) must equal "
    "the merge computed from the abstract pre-simplification attributes, also when attributes are expressions "
    "in a parameter (compared at two parameter values).",
    note="Trusts the generator's own bookkeeping of link signs and CasADi's evaluation of constant expressions.",
    technique="property-based testing against a reference merge computed on the abstract model",
)
