"""C24 - SymPy backend emits code with the flat model's meaning.

Generator: flat or one-level models (components so that dotted flat names such
as `a.b` appear) with variables of every prefix, 1-4 equations `v = rhs` /
`der(v) = rhs` whose right-hand sides come from vf.gen.expr restricted to the
backend's subset, printed with minimal or redundant parentheses, and variable
names that are Python builtins, dict-method names, names the generated module
itself uses, Python keywords, or pairs that coincide after name mangling.

Oracle: the generated source must compile and execute (solver stubbed), every
entry of `eqs` evaluated at drawn values must equal the reference evaluation
of lhs - rhs on the ABSTRACT tree, the x/v/p/c/u/y lists must be the
classification read off the abstract model, and the sympy objects of distinct
Modelica variables must be pairwise different."""
import itertools
import math

from hypothesis import strategies as st

from vf.core import Violation, drive, guarded
from vf.gen import expr as X

ID = "C24"
LEVEL = "exploration"
SOFT_BUDGET_S = {"quick": 300, "thorough": 3000}  # importing sympy+scipy alone takes 5 s idle, far longer on a loaded box
RULE = (
    "models with 2-7 scalar Real variables (prefix none/parameter/constant/input/output; 0-2 one-level "
    "components giving dotted names), 1-4 equations var|der(var) = rhs, rhs of depth <= 4 over + - * / ^, "
    "unary minus, sin cos tan, time, der(state), int/real literals, minimal or redundant parentheses; names from "
    "plain / Python builtins / dict methods / names used by the generated module / Python keywords / pairs "
    "equal after mangling (a.b~a__b, n~n_); each equation evaluated at 2 drawn points.  non-trivial = some "
    "equation needs >= 1 value-relevant parenthesis pair in its minimal Modelica text (a sub-expression binding "
    "looser than its position allows, excluding a+(b+c) and a*(b*c)); distinct = distinct abstract case."
)
ASSUMPTIONS = [
    "the reference evaluator of vf.gen.expr on the abstract tree is the meaning of the equations; tolerance "
    "1e-9 relative to the largest intermediate value of the reference evaluation; points the reference marks "
    "fragile (tan near a pole, ~0 divisor, huge values) are skipped",
    "all drawn variable values, parameters and time lie in (0.5, 3.1) and are pairwise different, so divisors and "
    "power bases (generated from + * / ^ only) are positive; derivative values are drawn independently",
    "a non-differentiated output is expected in BOTH the variable list and the output list, a differentiated "
    "output in the state list and the output list (outputs are unknowns of the model and OdeModel solves for x' and v)",
    "a sympy symbol is attributed to a Modelica variable by its name up to '.' <-> '__' and trailing underscores "
    "(the mangling itself is not prescribed); among variables whose names coincide under that relation the order "
    "of the list decides (component classes are printed before the model, declaration order otherwise)",
    "order inside a list is only required for top-level variables (declaration order) and not for the variable list (the backend appends outputs after the other unknowns)",
    "component variables carry no input/output prefix (their stripping is C07's subject); only unknowns are differentiated",
    "x0/p0/c0/u0 dictionaries are not part of the statement and are not compared",
]

# ---------------------------------------------------------------------------
# names
# ---------------------------------------------------------------------------
PLAIN = ["x", "y", "z", "w", "v1", "pos", "vel", "phi", "Tq", "k", "m", "g", "x_", "a_b", "q2"]
PYBUILTIN = ["abs", "sum", "max", "min", "len", "id", "list", "str"]
DICTMETHOD = ["keys", "items", "values", "get"]
TEMPLATE = ["sympy", "mech", "self", "sin", "cos", "tan", "OdeModel", "super"]
PYKEYWORD = ["lambda", "pass", "is", "None", "def", "yield", "global", "del", "try", "with"]
RUNTIME = ["t"]
COMP_NAMES = ["a", "b", "body", "c1"]
# names that the generated module needs for itself (or that are not Python identifiers at all)
RESERVED = set(TEMPLATE) | set(PYKEYWORD) | set(RUNTIME)
FEATURE_RESERVED = "unprotected_reserved_name"
FEATURE_COLLISION = "mangled_name_collision"

NAME_CLASSES = [
    ("plain", PLAIN),
    ("pybuiltin", PYBUILTIN),
    ("dictmethod", DICTMETHOD),
    ("template", TEMPLATE),
    ("pykeyword", PYKEYWORD),
    ("runtime_t", RUNTIME),
]
VALUES = ["1", "2", "0.5", "1.5", "3.0", "2.5e0", "4"]
PREFIXES = ["", "", "", "", "parameter", "constant", "input", "output", "output"]


def name_class(n):
    for cls, names in NAME_CLASSES:
        if n in names:
            return cls
    return "other"


def norm(n):
    """Identity of a name up to the freedom a mangling scheme has."""
    return n.rstrip("_").replace("__", ".")


# ---------------------------------------------------------------------------
# abstract model
# ---------------------------------------------------------------------------
def flat_vars(case):
    """[(flat name, prefix, top_level)] in the order the lists are expected in:
    component classes are printed (and therefore numbered) before the model."""
    out = []
    for d in case["decls"]:
        if "comp" in d:
            for v in d["comp"]:
                out.append((d["name"] + "." + v["name"], v["prefix"], False))
    for d in case["decls"]:
        if "comp" not in d:
            out.append((d["name"], d["prefix"], True))
    return out


def decl_text(v):
    pre = (v["prefix"] + " ") if v["prefix"] else ""
    val = (" = " + v["value"]) if v.get("value") is not None else ""
    return "  %sReal %s%s;\n" % (pre, v["name"], val)


def model_text(case):
    parts = []
    k = 0
    body = []
    for d in case["decls"]:
        if "comp" in d:
            k += 1
            parts.append("model S%d\n%send S%d;\n" % (k, "".join(decl_text(v) for v in d["comp"]), k))
            body.append("  S%d %s;\n" % (k, d["name"]))
        else:
            body.append(decl_text(d))
    eqs = []
    for q in case["eqs"]:
        eqs.append("  %s = %s;\n" % (X.to_modelica(q["lhs"]), X.to_modelica(q["rhs"], bits=q.get("bits"), spaces=q.get("spaces", True))))
    parts.append("model M\n%sequation\n%send M;\n" % ("".join(body), "".join(eqs)))
    return "".join(parts)


def differentiated(case):
    out = set()
    for q in case["eqs"]:
        for side in (q["lhs"], q["rhs"]):
            for n in X.walk(side):
                if n[0] == "der":
                    out.add(n[1][1])
    return out


def classification(case):
    fv = flat_vars(case)
    ders = differentiated(case)
    exp = {k: [] for k in "xvpcuy"}
    for name, prefix, _ in fv:
        if prefix == "parameter":
            exp["p"].append(name)
        elif prefix == "constant":
            exp["c"].append(name)
        elif prefix == "input":
            exp["u"].append(name)
        else:
            exp["x" if name in ders else "v"].append(name)
            if prefix == "output":
                exp["y"].append(name)
    return exp


def features(case):
    fv = flat_vars(case)
    out = set()
    if any(top and n in RESERVED for n, _, top in fv):
        out.add(FEATURE_RESERVED)
    norms = [norm(n.replace(".", "__")) for n, _, _ in fv]
    if len(set(norms)) < len(norms):
        out.add(FEATURE_COLLISION)
    return out


def value_relevant_parens(e):
    """Number of parenthesis pairs of the minimal Modelica text whose removal
    changes the value: a child binding looser than its position allows, except
    the associative cases a+(b+c), a+(b-c), a*(b*c), a*(b/c) and unary-minus
    children (a*(-b) == a*-b)."""
    n = 0
    for node in X.walk(e):
        if node[0] == "neg":
            c = node[1]
            if c[0] != "neg" and X.level(c) < X.L_MUL:
                n += 1
        elif node[0] == "bin":
            op, a, b = node[1], node[2], node[3]
            if op in ("+", "-"):
                la, lb = X.L_ADD, X.L_MUL
            elif op in ("*", "/"):
                la, lb = X.L_MUL, X.L_POW
            else:
                la = lb = X.L_PRIM
            if a[0] != "neg" and X.level(a) < la:
                n += 1
            if b[0] != "neg" and X.level(b) < lb:
                if not (op in ("+", "*") and X.level(b) == X.level(node)):
                    n += 1
    return n


def scale_of(e, env, der):
    """Largest |intermediate value| of the reference evaluation."""
    m = 1.0
    for n in X.walk(e):
        if n[0] in ("bin", "neg", "call", "var", "time", "der", "int", "real"):
            try:
                v = X.evaluate(n, env, der=der)
            except X.Fragile:
                raise
            if isinstance(v, (int, float)):
                m = max(m, abs(v))
    return m


# ---------------------------------------------------------------------------
# oracle
# ---------------------------------------------------------------------------
def run_generated(src):
    """compile + exec the module with the solver stubbed; returns the model instance."""
    import pymoca.backends.sympy.runtime as rt

    try:
        code = compile(src, "<generated M>", "exec")
    except SyntaxError as e:
        raise Violation("invalid_python:SyntaxError", "%s\n%s" % (e, src))
    orig = rt.OdeModel.compute_fg
    rt.OdeModel.compute_fg = lambda self: None
    try:
        ns = {"__name__": "vf_c24_generated"}
        try:
            exec(code, ns)
        except Exception as e:  # noqa: BLE001 - generated code is the output under test
            raise Violation("module_exec:" + type(e).__name__, "%s: %s\n%s" % (type(e).__name__, e, src))
        cls = ns.get("M")
        if not isinstance(cls, type):
            raise Violation("model_class_missing", "module defines no class M\n" + src)
        try:
            return cls()
        except Exception as e:  # noqa: BLE001
            raise Violation("instantiate:" + type(e).__name__, "%s: %s\n%s" % (type(e).__name__, str(e)[:200], src))
    finally:
        rt.OdeModel.compute_fg = orig


def sym_name(s):
    """Name of a sympy Symbol or of an applied undefined function x(t)."""
    f = getattr(s, "func", None)
    if getattr(s, "is_Function", False) and f is not None:
        return str(getattr(f, "__name__", f))
    return str(getattr(s, "name", s))


def attributions(model, exp, text, src):
    """Candidate maps Modelica variable -> sympy object read off the lists
    x/v/p/c/u (check (b)).  A symbol can belong to a variable if their names agree
    up to '.' <-> '__' and trailing underscores; where that leaves a choice
    (x and x_ in one list) every pairing is a candidate and the case passes if
    one of them satisfies the rest of the oracle."""
    top = {n for n, _, t in exp["_fv"] if t}
    per_group = []  # [(names, [objects])]
    for key in "xvpcu":
        got = list(getattr(model, key))
        want = exp[key]
        got_names = [sym_name(s) for s in got]
        if sorted(norm(g) for g in got_names) != sorted(norm(w) for w in want):
            raise Violation(
                "classification:" + key,
                "self.%s holds %r, the model's %s are %r\n%s\n%s" % (key, got_names, key, want, text, src),
            )
        want_top = [norm(w) for w in want if w in top]
        got_top = [norm(g) for g in got_names if norm(g) in set(want_top)]
        if key != "v" and len({norm(w) for w in want}) == len(want) and got_top != want_top:
            raise Violation("list_order:" + key, "self.%s holds %r, declaration order is %r\n%s" % (key, got_names, want, text))
        groups = {}
        for w in want:
            groups.setdefault(norm(w), ([], []))[0].append(w)
        for sobj, g in zip(got, got_names):
            groups[norm(g)][1].append(sobj)
        per_group += list(groups.values())
    got_y = list(model.y)
    if sorted(norm(sym_name(s)) for s in got_y) != sorted(norm(w) for w in exp["y"]):
        raise Violation(
            "classification:y",
            "self.y holds %r, the model's outputs are %r\n%s\n%s" % ([sym_name(s) for s in got_y], exp["y"], text, src),
        )
    choices = [list(itertools.permutations(objs)) for _, objs in per_group]
    out = []
    for combo in itertools.islice(itertools.product(*choices), 48):
        assign = {}
        for (names, _), objs in zip(per_group, combo):
            assign.update(zip(names, objs))
        out.append(assign)
    return out


def check_distinct(assign, text, src):
    names = sorted(assign)
    for i, a in enumerate(names):
        for b in names[i + 1:]:
            if assign[a] == assign[b] or str(assign[a]) == str(assign[b]):
                raise Violation(
                    "distinct_symbols",
                    "Modelica variables %s and %s share the Python symbol %s\n%s\n%s" % (a, b, assign[a], text, src),
                )


def verify(case, model, exp, assign, eqs, text, src):
    """Checks (b) for y, (c) and (a) under one attribution of symbols to variables."""
    import sympy
    from sympy.core.function import AppliedUndef

    own = [assign[w] for w in exp["y"]]
    for s in model.y:
        if s not in own:
            raise Violation("classification:y", "self.y entry %s is not the symbol of an output variable (%r)\n%s\n%s" % (s, exp["y"], text, src))
        own.remove(s)
    time_sym = model.t
    for a, s in assign.items():
        if s == time_sym:
            raise Violation("distinct_symbols:time", "variable %s is the symbol of time (%s)\n%s\n%s" % (a, s, text, src))
    check_distinct(assign, text, src)
    if len(eqs) != len(case["eqs"]):
        raise Violation("equation_count", "%d entries in eqs, %d equations\n%s\n%s" % (len(eqs), len(case["eqs"]), text, src))
    ders = sorted(differentiated(case))
    compared = fragile = 0
    for pt in case["points"]:
        env = dict(pt["vals"])
        env["time"] = pt["time"]
        dvals = {n: pt["der"].get(n, 0.125) for n in ders}
        rep = {}
        for n in ders:
            rep[sympy.Derivative(assign[n], time_sym)] = sympy.Float(dvals[n])
        for n, s in assign.items():
            rep[s] = sympy.Float(env[n])
        rep[time_sym] = sympy.Float(env["time"])
        for i, q in enumerate(case["eqs"]):
            residual = ["bin", "-", q["lhs"], q["rhs"]]
            try:
                want = X.evaluate(residual, env, der=dvals)
                scale = scale_of(residual, env, dvals)
            except X.Fragile:
                fragile += 1
                continue
            e = eqs[i]
            try:
                val = e.xreplace(rep) if hasattr(e, "xreplace") else e
                if hasattr(val, "atoms") and (val.free_symbols or val.atoms(AppliedUndef, sympy.Derivative)):
                    raise Violation(
                        "eq_unknown_symbol",
                        "eqs[%d] = %s contains symbols that belong to no variable: %s\n%s\n%s" % (i, e, val, text, src),
                    )
                got = complex(val)
            except Violation:
                raise
            except (TypeError, ValueError, ArithmeticError, AttributeError) as ex:
                raise Violation("eq_value", "eqs[%d] = %s does not evaluate: %s\n%s\n%s" % (i, e, ex, text, src))
            tol = 1e-9 * max(scale, abs(want))
            if abs(got.imag) > tol or math.isnan(got.real) or abs(got.real - want) > tol:
                raise Violation(
                    "eq_value",
                    "eqs[%d] = %s is %r at %r (der %r), but %s = %s gives lhs-rhs = %r\n%s\n%s"
                    % (i, e, got, env, dvals, X.to_modelica(q["lhs"]), X.to_modelica(q["rhs"]), want, text, src),
                )
            compared += 1
    return compared, fragile


def check_case(ctx, case):
    try:
        return _check_case(ctx, case)
    except Violation as v:
        f = features(case)
        if f:
            v.kind += "".join("+" + k for k in sorted(f))
        raise


def _check_case(ctx, case):
    from pymoca import parser
    from pymoca.backends.sympy import generator

    text = model_text(case)
    tree = guarded(parser.parse, text, bypass_cache=True, where="parse")
    if tree is None:
        raise Violation("valid_text_rejected", "parse returned None for:\n" + text)
    src = guarded(generator.generate, tree, "M", {}, where="generate")
    if not isinstance(src, str):
        raise Violation("generate_result", "generate returned %r" % type(src).__name__)
    model = run_generated(src)

    exp = classification(case)
    exp["_fv"] = flat_vars(case)
    eqs = list(model.eqs)
    first = None
    for assign in attributions(model, exp, text, src):
        try:
            compared, fragile = verify(case, model, exp, assign, eqs, text, src)
            break
        except Violation as v:
            first = first or v
    else:
        raise first

    # ---- labels ---------------------------------------------------------
    labels = set()
    nparens = 0
    for q in case["eqs"]:
        nparens = max(nparens, value_relevant_parens(q["rhs"]))
        for op in X.operators(q["rhs"]):
            labels.add("op:" + op)
        for n in X.walk(q["rhs"]):
            if n[0] == "time":
                labels.add("time")
            if n[0] == "der":
                labels.add("der_in_rhs")
            if n[0] == "real":
                labels.add("real_literal")
        labels.add("der_lhs" if q["lhs"][0] == "der" else "alg_lhs")
        if q.get("form") in (0, 1, 2):
            labels.add("equation_form:" + {0: "zero_left", 1: "zero_right", 2: "sides_swapped"}[q["form"]])
        labels.add("parens:redundant" if q.get("bits") else "parens:minimal")
        if not q.get("spaces", True):
            labels.add("no_spaces")
    labels.add("rhs_depth:%d" % max(depth(q["rhs"]) for q in case["eqs"]))
    labels.add("needed_parens:%s" % (nparens if nparens < 3 else "3+"))
    labels.add("n_eqs:%d" % len(case["eqs"]))
    for n, prefix, top in exp["_fv"]:
        labels.add("prefix:" + (prefix or "none"))
        if top:
            labels.add("name:" + name_class(n))
        else:
            labels.add("dotted_name")
    if any(n in exp["x"] for n in exp["y"]):
        labels.add("output_state")
    for kind in case.get("pairs", []):
        labels.add("pair:" + kind)
    for f in features(case):
        labels.add("feature:" + f)
    if fragile:
        labels.add("fragile_point_skipped")
    if not compared:
        labels.add("no_point_compared")
    return dict(nontrivial=nparens >= 1 and compared > 0, labels=sorted(labels), sample={"text": text, "generated_eqs": [str(e) for e in eqs]})


def depth(e):
    kids = [c for c in e[1:] if isinstance(c, list)]
    return 1 + max([depth(c) for c in kids] or [0])


# ---------------------------------------------------------------------------
# generator
# ---------------------------------------------------------------------------
@st.composite
def case_strategy(draw, ctx=None):
    known_res = ctx is not None and ctx.known(FEATURE_RESERVED)
    known_col = ctx is not None and ctx.known(FEATURE_COLLISION)
    excl = ctx.exclude if ctx is not None else (lambda k: None)

    def pick_name(used, dotted=False):
        for _ in range(20):
            k = draw(st.integers(0, 11))
            if k <= 4:
                pool = PLAIN
            elif k <= 6:
                pool = PYBUILTIN
            elif k == 7:
                pool = DICTMETHOD
            elif k <= 9:
                pool = TEMPLATE
            elif k == 10:
                pool = PYKEYWORD
            else:
                pool = RUNTIME
            if not dotted and pool[0] in RESERVED and known_res:
                excl(FEATURE_RESERVED)
                pool = PLAIN
            n = draw(st.sampled_from(pool))
            if n in used:
                continue
            if known_col and any(norm(n) == norm(u) for u in used):
                excl(FEATURE_COLLISION)
                continue
            return n
        for i in range(100):
            if "u%d" % i not in used:
                return "u%d" % i

    def var(name, top, first=False):
        if first:
            prefix = ""
        elif top:
            prefix = draw(st.sampled_from(PREFIXES))
        else:
            prefix = draw(st.sampled_from(["", "", "parameter"]))
        v = {"name": name, "prefix": prefix, "value": None}
        if prefix in ("parameter", "constant"):
            v["value"] = draw(st.sampled_from(VALUES))
        return v

    decls = []
    used = set()
    pairs = []
    # --- colliding pairs ---------------------------------------------------
    pk = draw(st.integers(0, 8))
    if pk <= 2 and known_col:
        excl(FEATURE_COLLISION)
        pk = 99
    if pk == 0 or pk == 1:
        # component a with variable b, and a top-level variable literally named a__b
        cn = draw(st.sampled_from(COMP_NAMES))
        vn = draw(st.sampled_from(PLAIN[:9] + PYBUILTIN[:3]))
        comp = [var(vn, False)]
        if draw(st.booleans()):
            comp.append(var(pick_name({vn}, dotted=True), False))
        decls.append({"name": cn, "comp": comp})
        decls.append(var(cn + "__" + vn, True))
        used |= {cn, cn + "__" + vn}
        pairs.append("dotted")
    elif pk == 2:
        # n and n_: a protected name gets "_" appended and may meet a literal n_
        pools = [PLAIN[:8], DICTMETHOD, DICTMETHOD, PYBUILTIN] + ([TEMPLATE] if not known_res else [])
        n = draw(st.sampled_from(draw(st.sampled_from(pools))))
        decls.append(var(n, True))
        decls.append(var(n + "_", True))
        used |= {n, n + "_"}
        pairs.append("suffix:" + name_class(n))
    # --- further components ---------------------------------------------------
    if draw(st.integers(0, 3)) == 0:
        cn = draw(st.sampled_from([c for c in COMP_NAMES if c not in used] or ["cmp"]))
        used.add(cn)
        names = set()
        comp = []
        for _ in range(draw(st.integers(1, 2))):
            n = pick_name(names, dotted=True)
            names.add(n)
            comp.append(var(n, False))
        decls.append({"name": cn, "comp": comp})
    # --- top-level variables -------------------------------------------------
    n_more = draw(st.integers(1 if decls else 2, 5))
    for _ in range(n_more):
        n = pick_name(used)
        used.add(n)
        decls.append(var(n, True))
    # declaration order: a drawn permutation
    decls = draw(st.permutations(decls))
    case = {"decls": list(decls), "pairs": pairs}
    fv = flat_vars(case)
    unknowns = [n for n, p, _ in fv if p in ("", "output")]
    if not unknowns:
        # make the first top-level variable an unknown
        for d in case["decls"]:
            if "comp" not in d:
                d["prefix"], d["value"] = "", None
                break
        fv = flat_vars(case)
        unknowns = [n for n, p, _ in fv if p in ("", "output")]
    all_names = [n for n, _, _ in fv]
    # --- equations ---------------------------------------------------------------
    n_eq = min(len(unknowns), draw(st.sampled_from([1, 2, 2, 3, 3, 4])))
    lhs_vars = list(draw(st.permutations(unknowns)))[:n_eq]
    der_flags = [draw(st.integers(0, 2)) == 0 for _ in lhs_vars]
    states = [v for v, f in zip(lhs_vars, der_flags) if f]
    eqs = []
    for v, f in zip(lhs_vars, der_flags):
        cfg = X.Cfg(
            vars_=all_names, funcs1=["sin", "cos", "tan"], funcs2=[], elementwise=False, allow_if=False,
            allow_pos=False, allow_time=True, max_depth=draw(st.sampled_from([1, 2, 3, 3, 4, 4, 4])),
        )
        rhs = draw(X.num_expr(cfg))
        if states and draw(st.integers(0, 3)) == 0:
            s = draw(st.sampled_from(states))
            op = draw(st.sampled_from(["+", "-", "*"]))
            d = ["der", ["var", s]]
            rhs = ["bin", op, rhs, d] if draw(st.booleans()) else ["bin", op, d, rhs]
        q = {"lhs": ["der", ["var", v]] if f else ["var", v], "rhs": rhs}
        form = draw(st.integers(0, 7))
        zero = draw(st.sampled_from([["int", 0], ["real", "0.0"]]))
        if form == 0:
            q = {"lhs": zero, "rhs": ["bin", "-", q["lhs"], q["rhs"]]}  # residual form, zero on the left
        elif form == 1:
            q = {"lhs": ["bin", "-", q["lhs"], q["rhs"]], "rhs": zero}  # residual form, zero on the right
        elif form == 2:
            q = {"lhs": q["rhs"], "rhs": q["lhs"]}  # sides swapped
        q["form"] = form
        if draw(st.integers(0, 2)) == 0:
            q["bits"] = draw(st.lists(st.integers(0, 3), min_size=4, max_size=16))
        else:
            q["bits"] = None
        q["spaces"] = draw(st.integers(0, 4)) != 0
        eqs.append(q)
    case["eqs"] = eqs
    # --- evaluation points ---------------------------------------------------------
    points = []
    ders = sorted(differentiated(case))
    for _ in range(2):
        ks = draw(st.lists(st.integers(0, 259), min_size=len(all_names) + 1, max_size=len(all_names) + 1, unique=True))
        vals = {n: 0.5 + k / 100.0 for n, k in zip(all_names, ks)}
        dk = draw(st.lists(st.integers(-300, 300), min_size=len(ders), max_size=len(ders), unique=True))
        points.append({"vals": vals, "time": 0.5 + ks[-1] / 100.0, "der": {n: k / 100.0 + 0.005 for n, k in zip(ders, dk)}})
    case["points"] = points
    return case


def shard(ctx):
    drive(ctx, case_strategy(ctx), check_case, ctx.share(1200, 30000))


def replay(ctx, case):
    check_case(ctx, case)


MANIFEST = dict(
    text="Generated small models are translated by the SymPy backend; the emitted module is compiled and executed "
    "with the solver stubbed, every entry of eqs is evaluated at drawn values (derivatives drawn independently) and "
    "compared with a reference evaluation of lhs - rhs on the abstract expression tree, the x/v/p/c/u/y lists are "
    "compared with the classification read off the abstract model, and the symbols of distinct variables must be "
    "pairwise different.  Sampling over expression shapes to depth 4 and over hostile variable names.",
    note="Trusts the reference evaluator and Modelica printer of vf.gen.expr, sympy's xreplace/evaluation, and the "
    "name-based attribution of symbols to variables described in the assumptions.",
    technique="property-based differential testing of generated code against a reference evaluator",
)
