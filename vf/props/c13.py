"""C13 - Variable metadata reports the declared attributes.

Generated flat models whose variables (every category, Real/Integer/Boolean,
scalar / 1-D / 2-D) carry attribute modifications and declaration values that
are literals, array literals, `each` scalars, affine and non-affine
expressions of parameters are compiled by the CasADi backend (default options,
no simplify).  The reference value of every attribute is the reference
evaluator applied to the abstract expression at drawn parameter values; it is
compared with (i) the attribute stored on the Variable object (numbers
directly, MX through a ca.Function of the parameter symbols), (ii) every entry
of variable_metadata_function(parameter vector), and (iii) the Python types of
Integer/Boolean variables and their numeric attributes."""
import math

import numpy as np
from hypothesis import strategies as st

from vf import canon
from vf.core import Discard, Violation, drive, guarded
from vf.gen import dae as D
from vf.gen import expr as X

ID = "C13"
LEVEL = "exploration"
RULE = (
    "flat models with 2-3 Real parameters (literal values), optionally an Integer, a Boolean and a 1-D Real "
    "array parameter, and 3-8 further variables over every category (state, algebraic, input, constant, "
    "parameter) and type (Real/Integer/Boolean), scalar / 1-D / 2-D (sizes <= 3), declared in drawn order; "
    "each variable has 0-4 modifications among start/min/max/nominal/fixed and parameters/constants a "
    "declaration value; expressions: literals (negative, 0, 1, constant-folded products), array literals, "
    "`each` scalars, whole-array expressions of the array parameter, affine templates (c*p+d, p-q, -p, p/c, "
    "(p+q)/c, ...), non-affine templates (p*q, p^2, p/q, abs, sqrt, sin, exp, if, min, max) and random "
    "expression trees over the parameters; every model is evaluated at 2-3 drawn parameter points that differ "
    "from the declared values.  non-trivial = an attribute depends on >= 2 parameters, or the model is "
    "all-affine with >= 1 parameter-dependent attribute; distinct = distinct abstract model + points."
)
ASSUMPTIONS = [
    "the 'given parameter values' are the inputs of variable_metadata_function / the values substituted for the "
    "parameter symbols; a parameter's own value attribute is its declared expression (a literal for base parameters)",
    "attribute expressions reference parameters only (no constants, no other variables); array constructors with "
    "non-literal elements ({p1, 2}) are not generated: the backend's exitArray raises KeyError on them everywhere",
    "a scalar attribute of an array variable is written with `each` and must appear at every element",
    "points where the reference evaluation is within 1e-6 of a branch flip, non-finite or outside the real domain are skipped",
    "row order inside a category and the parameter order of the input vector are taken from the model's own lists "
    "(classification is C10's property); elements of an array variable are column-major",
    "Python types: python_type per declared type; for Integer/Boolean variables a specified, non-symbolic "
    "value/start/min/max/nominal must be int / bool - for array variables the leaves of Python lists (nothing is "
    "demanded for Real variables, for MX attributes, or for DM matrices stored on array variables)",
    "numeric comparison with rtol=atol=1e-9 (NaN equals NaN, infinities compared exactly)",
]
SOFT_BUDGET_S = {"quick": 120, "thorough": 3000}

CATS = ("states", "alg_states", "inputs", "parameters", "constants")
COLS = ("value", "min", "max", "start", "fixed", "nominal")  # column order fixed by the statement's code anchor
ATTRS = ("value", "start", "min", "max", "nominal", "fixed")
DEFAULTS = {"value": float("nan"), "start": 0.0, "min": -float("inf"), "max": float("inf"), "nominal": 0.0, "fixed": 0.0}
PYTYPE = {"Real": float, "Integer": int, "Boolean": bool}
TYPE_ATTRS = {"Real": ["start", "min", "max", "nominal", "fixed"], "Integer": ["start", "min", "max", "fixed"],
              "Boolean": ["start", "fixed"]}
MUL_ONLY = {"nonaffine:mul", "nonaffine:sq", "nonaffine:div", "nonaffine:cmul"}


# --------------------------------------------------------------------------
# printer
# --------------------------------------------------------------------------
def print_var(v):
    t = (v["prefix"] + " " if v["prefix"] else "") + v["type"] + " " + v["name"]
    if v["dims"]:
        t += "[" + ",".join(str(d) for d in v["dims"]) + "]"
    mods = []
    for a, m in v["attrs"].items():
        mods.append(("each " if m["each"] else "") + a + " = " + D.pe(m["e"]))
    if mods:
        t += "(" + ", ".join(mods) + ")"
    if v.get("value") is not None:
        t += " = " + D.pe(v["value"]["e"])
    return "  " + t + ";\n"


def print_model(m):
    out = "model M\n" + "".join(print_var(v) for v in m["vars"]) + "equation\n"
    for v in m["vars"]:
        if v["state"]:
            rhs = "1" if not v["dims"] else "ones(%s)" % ", ".join(str(d) for d in v["dims"])
            out += "  der(%s) = %s;\n" % (v["name"], rhs)
        elif not v["prefix"] and v["type"] == "Real" and not v["dims"]:
            out += "  %s = 1;\n" % v["name"]
    return out + "end M;\n"


# --------------------------------------------------------------------------
# reference
# --------------------------------------------------------------------------
def ref_value(e, env):
    v = D.E(env, "modelica").ev(e)
    arr = np.array(v, dtype=float)
    if not np.all(np.isfinite(arr)) or np.any(np.abs(arr) > 1e12):
        raise X.Fragile("non-finite / huge reference value")
    return arr


def spec_of(v, a):
    m = v["value"] if a == "value" else v["attrs"].get(a)
    return m


def expected(v, a, env):
    """Reference value of attribute a: 0-d array (scalar, applies to every element) or array of shape dims."""
    m = spec_of(v, a)
    if m is None:
        return np.array(DEFAULTS[a])
    return ref_value(m["e"], env)


def numel(v):
    n = 1
    for d in v["dims"]:
        n *= d
    return n


def broadcast(ref, v):
    """Reference per element, column-major."""
    n = numel(v)
    if ref.ndim == 0:
        return np.full(n, float(ref))
    if list(ref.shape) != list(v["dims"]):
        raise AssertionError("reference shape %r for %s%r" % (ref.shape, v["name"], v["dims"]))
    return ref.flatten(order="F")


def close(x, y):
    if math.isnan(x) or math.isnan(y):
        return math.isnan(x) and math.isnan(y)
    if math.isinf(x) or math.isinf(y):
        return x == y
    return abs(x - y) <= 1e-9 + 1e-9 * max(abs(x), abs(y))


def params_of(e):
    return {n[1] for n in X.walk(e) if n[0] in ("var", "idx", "arr")}


# --------------------------------------------------------------------------
# oracle
# --------------------------------------------------------------------------
def leaves_of(x):
    if isinstance(x, (list, tuple)):
        out = []
        for y in x:
            out += leaves_of(y)
        return out
    if isinstance(x, np.ndarray):
        return list(x.reshape(-1))
    return [x]


def check_types(mv, av, text):
    import casadi as ca

    want = PYTYPE[av["type"]]
    if mv.python_type is not want:
        raise Violation("python_type:" + av["type"], "%s: python_type %r, declared %s\n%s" % (av["name"], mv.python_type, av["type"], text))
    if av["type"] == "Real":
        return
    for a in ("value", "start", "min", "max", "nominal"):
        if spec_of(av, a) is None:
            continue
        val = getattr(mv, a)
        if isinstance(val, ca.MX):
            continue
        if av["dims"] and not isinstance(val, (list, tuple, int, float)):
            # array variable: a DM / ndarray is a matrix container, there is no Python scalar type to keep
            continue
        for x in leaves_of(val):
            if av["type"] == "Boolean":
                ok = isinstance(x, (bool, np.bool_))
            else:
                ok = isinstance(x, (int, np.integer)) and not isinstance(x, (bool, np.bool_))
            if not ok:
                raise Violation(
                    "attr_python_type:%s:%s" % (av["type"], a),
                    "%s.%s of %s variable is %s %r\n%s" % (av["name"], a, av["type"], type(x).__name__, x, text),
                )


def make_env(m, point):
    """name -> numpy value for every parameter (base: drawn; others: filler, nothing references them)."""
    env = {}
    j = 0
    for v in m["vars"]:
        if v["prefix"] != "parameter":
            continue
        if v["name"] in point:
            val = np.array(point[v["name"]], dtype=float)
        else:
            j += 1
            val = np.full(v["dims"] or (), 0.75 + 0.5 * j)
        env[v["name"]] = val if v["dims"] else float(val)
    return env


def check_point(model, m, byname, env, f, text):
    import casadi as ca

    # reference first: a fragile point is skipped as a whole
    ref = {}
    for v in m["vars"]:
        for a in ATTRS:
            ref[(v["name"], a)] = expected(v, a, env)
    aenv = {k: np.array(val, dtype=float) for k, val in env.items()}

    # (i) Variable objects
    for cat in CATS:
        for mv in getattr(model, cat):
            av = byname[mv.symbol.name()]
            for a in ATTRS:
                try:
                    got = canon.attr_value(getattr(mv, a), aenv)
                except Discard:
                    raise Violation("attr_free_symbol:" + a, "%s.%s depends on a non-parameter symbol: %r\n%s" % (av["name"], a, getattr(mv, a), text))
                got = np.array(got, dtype=float)
                want = ref[(av["name"], a)]
                spec = spec_of(av, a) is not None
                kind = ("attr_value:" if spec else "attr_default:") + a
                g = got.flatten(order="F")
                if want.ndim == 0 and g.size == 1:
                    w = np.array([float(want)])
                else:
                    w = broadcast(want, av)
                if g.size != w.size or not all(close(float(x), float(y)) for x, y in zip(g, w)):
                    raise Violation(kind, "%s.%s on the Variable: got %r expected %r at %r\n%s" % (av["name"], a, got.tolist(), want.tolist(), env, text))

    # (ii) metadata function
    pvec = []
    for mv in model.parameters:
        pvec += list(np.atleast_1d(np.array(env[mv.symbol.name()], dtype=float)).flatten(order="F"))
    if f.n_in() != 1 or f.n_out() != len(CATS) or f.numel_in(0) != len(pvec):
        raise Violation("metadata_signature", "%s for %d parameter elements\n%s" % (f, len(pvec), text))
    outs = guarded(f.call, [ca.DM(pvec)], where="metadata_eval")
    for k, cat in enumerate(CATS):
        M = np.array(ca.DM(outs[k]), dtype=float)
        rows = []
        for mv in getattr(model, cat):
            av = byname[mv.symbol.name()]
            cols = [broadcast(ref[(av["name"], a)], av) for a in COLS]
            for r in range(numel(av)):
                rows.append((av, r, [float(c[r]) for c in cols]))
        if M.shape != (len(rows), len(COLS)):
            raise Violation("metadata_shape", "output %d (%s) has shape %r, expected %r\n%s" % (k, cat, M.shape, (len(rows), len(COLS)), text))
        for i, (av, r, want) in enumerate(rows):
            for c, a in enumerate(COLS):
                if not close(float(M[i, c]), want[c]):
                    spec = spec_of(av, a) is not None
                    raise Violation(
                        ("metadata_value:" if spec else "metadata_default:") + a,
                        "%s row %d (%s element %d) column %s: got %r expected %r at %r\n%s" % (cat, i, av["name"], r, a, float(M[i, c]), want[c], env, text),
                    )


def model_info(m):
    labels = set()
    tags = []
    multi = False
    for v in m["vars"]:
        cat = "state" if v["state"] else (v["prefix"] or "algebraic")
        labels.add("cat:" + cat)
        labels.add("type:" + v["type"])
        labels.add("dims:%dd" % len(v["dims"]))
        specs = [(a, spec_of(v, a)) for a in ATTRS if spec_of(v, a) is not None]
        if not specs:
            labels.add("var_all_defaults")
        for a, s in specs:
            labels.add("attr:" + a)
            labels.add(s["tag"])
            if v["type"] != "Real":
                labels.add("typed_attr:" + v["type"] + ":" + s["tag"].split(":")[0])
            if s["each"]:
                labels.add("each")
            ps = params_of(s["e"])
            if ps:
                tags.append(s["tag"])
                if len(ps) >= 2:
                    multi = True
            if a == "fixed" and s["e"] == ["bool", True]:
                labels.add("fixed_true")
    dep = [t for t in tags]
    nonaff = [t for t in dep if not t.startswith("affine")]
    if not dep:
        labels.add("model:no_param_dependence")
    elif not nonaff:
        labels.add("model:affine")
    else:
        labels.add("model:non_affine")
        if all(t in MUL_ONLY for t in nonaff):
            labels.add("model:non_affine_products_only")
    if multi:
        labels.add("attr_of_2+_params")
    nontrivial = multi or (bool(dep) and not nonaff)
    return labels, nontrivial


def check_case(ctx, case):
    from pymoca import parser
    from pymoca.backends.casadi import generator

    m = case["model"]
    text = print_model(m)
    byname = {v["name"]: v for v in m["vars"]}
    labels, nontrivial = model_info(m)
    tree = guarded(parser.parse, text, bypass_cache=True, where="parse")
    if tree is None:
        raise Violation("valid_text_rejected", "parse returned None:\n" + text)
    try:
        model = guarded(generator.generate, tree, "M", {}, where="generate")
    except Violation as v:
        v.msg += "\n" + text
        raise

    seen = []
    for cat in CATS:
        for mv in getattr(model, cat):
            name = mv.symbol.name()
            av = byname.get(name)
            if av is None:
                raise Violation("unknown_variable", "model has %s in %s\n%s" % (name, cat, text))
            if mv.symbol.numel() != numel(av):
                raise Violation("variable_shape", "%s has %d elements, declared %r\n%s" % (name, mv.symbol.numel(), av["dims"], text))
            seen.append(name)
            check_types(mv, av, text)
    if sorted(seen) != sorted(byname):
        raise Violation("variable_set", "model variables %r, declared %r\n%s" % (sorted(seen), sorted(byname), text))

    try:
        f = guarded(lambda: model.variable_metadata_function, where="variable_metadata_function")
    except Violation as v:
        v.msg += "\n" + text
        raise
    mi = f.mx_in(0)
    labels.add("path:rebuild" if (mi.is_symbolic() and mi.name() == "in_var") else "path:direct")

    done = 0
    for point in case["points"]:
        env = make_env(m, point)
        try:
            check_point(model, m, byname, env, f, text)
        except X.Fragile:
            ctx.extra["fragile_points"] += 1
            continue
        done += 1
    ctx.extra["points_evaluated"] += done
    if done == 0:
        raise Discard("all points fragile")
    if case.get("again"):
        # the same Model object after an in-place change: constants replaced by their values leave the model,
        # every remaining variable keeps its attributes, and both views must show the model as it is now
        n_const = len(model.constants)
        f2 = None
        try:
            guarded(model.simplify, {"replace_constant_values": True}, where="simplify")
            f2 = guarded(lambda: model.variable_metadata_function, where="variable_metadata_function_again")
        except Violation as v:
            v.msg += "\n" + text
            raise
        except Discard:
            labels.add("again:simplify_not_implemented_for_this_model")  # the first phase still counts
        if f2 is not None:
            labels.add("again:constants_replaced" if n_const else "again:nothing_to_replace")
        for point in (case["points"][:2] if f2 is not None else []):
            env = make_env(m, point)
            try:
                check_point(model, m, byname, env, f2, text + "\n(after simplify({'replace_constant_values': True}) on the same Model object)")
            except X.Fragile:
                continue
            except Violation as v:
                v.kind = "after_simplify:" + v.kind
                raise
    return dict(nontrivial=nontrivial, labels=sorted(labels), sample={"text": text, "points": case["points"]})


# --------------------------------------------------------------------------
# strategy
# --------------------------------------------------------------------------
REAL_LITS = ["0.5", "1.5", "2.0", "1.25", "3.0", "2.5e0", "1e3", "0.0", "1.0", "0.75", "3.14159265358979", "1.0000001"]
COEFS = [["real", "2.5"], ["real", "0.5"], ["real", "1.5"], ["int", 3], ["int", 2], ["real", "0.25"], ["int", 4]]


def spec(e, tag, each=False):
    return {"e": e, "tag": tag, "each": each}


@st.composite
def real_literal(draw):
    """(expr, tag) without parameters for a Real attribute."""
    k = draw(st.integers(0, 9))
    if k <= 2:
        return ["real", draw(st.sampled_from(REAL_LITS))], "lit:real"
    if k <= 4:
        return ["int", draw(st.integers(0, 4))], "lit:int_for_real"
    if k <= 7:
        lit = draw(st.sampled_from([["real", draw(st.sampled_from(REAL_LITS[:6]))], ["int", draw(st.integers(1, 4))]]))
        return ["neg", lit], "lit:negative"
    form = draw(st.integers(0, 2))
    if form == 0:
        return ["bin", "*", ["int", draw(st.integers(2, 3))], ["real", draw(st.sampled_from(REAL_LITS[:5]))]], "lit:folded"
    if form == 1:
        return ["bin", "-", ["int", draw(st.integers(2, 4))], ["real", "0.5"]], "lit:folded"
    return ["bin", "/", ["int", draw(st.integers(1, 6))], ["int", 4]], "lit:folded"


@st.composite
def int_literal(draw):
    k = draw(st.integers(0, 9))
    if k <= 3:
        return ["int", draw(st.integers(0, 5))], "lit:int"
    if k <= 6:
        return ["neg", ["int", draw(st.integers(1, 5))]], "lit:negative"
    a, b = draw(st.integers(1, 3)), draw(st.integers(2, 3))
    form = draw(st.integers(0, 2))
    if form == 0:
        return ["bin", "*", ["int", a], ["int", b]], "lit:folded"
    if form == 1:
        return ["bin", "*", ["neg", ["int", a]], ["int", b]], "lit:folded"
    return ["bin", "-", ["int", a + 3], ["int", b]], "lit:folded"


@st.composite
def affine_expr(draw, leaves):
    P, Q = draw(st.sampled_from(leaves)), draw(st.sampled_from(leaves))
    c, c2 = draw(st.sampled_from(COEFS)), draw(st.sampled_from(COEFS))
    d = draw(real_literal())[0]
    forms = [
        ("cp+d", ["bin", "+", ["bin", "*", c, P], d]),
        ("p-q", ["bin", "-", P, Q]),
        ("-p", ["neg", P]),
        ("p/c", ["bin", "/", P, c]),
        ("p", P),
        ("(p+q)/c", ["bin", "/", ["bin", "+", P, Q], c]),
        ("cp-cq+d", ["bin", "+", ["bin", "-", ["bin", "*", c, P], ["bin", "*", c2, Q]], d]),
        ("d-p", ["bin", "-", d, P]),
        ("p+q", ["bin", "+", P, Q]),
    ]
    tag, e = draw(st.sampled_from(forms))
    return e, "affine:" + tag


@st.composite
def nonaffine_expr(draw, leaves, products_only=False):
    P, Q = draw(st.sampled_from(leaves)), draw(st.sampled_from(leaves))
    c = draw(st.sampled_from(COEFS))
    d = draw(real_literal())[0]
    forms = [
        ("mul", ["bin", "*", P, Q]),
        ("sq", ["bin", "^", P, ["int", 2]]),
        ("div", ["bin", "/", P, Q]),
        ("cmul", ["bin", "+", ["bin", "*", ["bin", "*", c, P], Q], d]),
    ]
    if not products_only:
        forms += [
            ("abs", ["call", "abs", P]),
            ("sqrt", ["call", "sqrt", P]),
            ("if", ["if", ["rel", draw(st.sampled_from([">", "<", ">=", "<="])), P, c], Q, d]),
            ("max", ["call", "max", P, Q]),
            ("min", ["call", "min", P, c]),
            ("sin", ["call", "sin", P]),
            ("exp", ["call", "exp", P]),
            ("mul", ["bin", "*", P, Q]),
            ("sq", ["bin", "^", P, ["int", 2]]),
        ]
    tag, e = draw(st.sampled_from(forms))
    return e, "nonaffine:" + tag


@st.composite
def int_param_expr(draw, n, affine):
    N = ["var", n]
    k = ["int", draw(st.integers(1, 3))]
    if affine:
        forms = [("p", N), ("p+d", ["bin", "+", N, k]), ("-p", ["neg", N]),
                 ("cp+d", ["bin", "-", ["bin", "*", ["int", 3], N], k])]
        tag, e = draw(st.sampled_from(forms))
        return e, "affine:" + tag
    forms = [("mul", ["bin", "*", N, N]), ("abs", ["call", "abs", N]), ("max", ["call", "max", N, ["int", 2]]),
             ("if", ["if", ["rel", ">", N, ["int", 1]], k, ["int", 5]])]
    tag, e = draw(st.sampled_from(forms))
    return e, "nonaffine:" + tag


class Plan:
    """What the model's parameter-dependent expressions may be."""

    def __init__(self, mode, reals, n, q, pb):
        self.mode = mode  # affine | one_products | one_nonaffine | mixed
        self.reals, self.n, self.q, self.pb = reals, n, q, pb
        self.nonaffine_left = 1
        leaves = [["var", p] for p in reals]
        if n:
            leaves.append(["var", n])
        if q:
            leaves += [["idx", "q", 1], ["idx", "q", 2]]
        self.leaves = leaves
        self.cfg = X.Cfg(vars_=reals, idx_vars=[("q", [2])] if q else [], funcs1=["sin", "cos", "exp", "sqrt", "abs", "log"],
                         funcs2=["min", "max"], elementwise=False, allow_if=True, rel_ops=["<", "<=", ">", ">="],
                         allow_bool_lit=False, max_depth=2)

    def want_nonaffine(self, draw):
        if self.mode == "affine":
            return False
        if self.mode in ("one_products", "one_nonaffine"):
            if self.nonaffine_left and draw(st.integers(0, 3)) > 0:
                self.nonaffine_left -= 1
                return True
            return False
        return draw(st.integers(0, 4)) < 3


def scalar_expr(draw, plan, type_):
    """(expr, tag) for a scalar attribute of a variable of the given type (not fixed)."""
    if type_ == "Boolean":
        if plan.pb and draw(st.integers(0, 2)) == 0:
            if draw(st.booleans()):
                return ["var", plan.pb], "affine:boolparam"
            if plan.want_nonaffine(draw):
                return ["not", ["var", plan.pb]], "nonaffine:not"
        return ["bool", draw(st.booleans())], "lit:bool"
    if type_ == "Integer":
        if plan.n and draw(st.integers(0, 1)) == 0:
            return draw(int_param_expr(plan.n, not plan.want_nonaffine(draw)))
        return draw(int_literal())
    if draw(st.integers(0, 9)) < 2:
        return draw(real_literal())
    if plan.want_nonaffine(draw):
        if plan.mode == "mixed" and draw(st.integers(0, 3)) == 0:
            return draw(X.num_expr(plan.cfg, 2)), "nonaffine:random_tree"
        return draw(nonaffine_expr(plan.leaves, products_only=(plan.mode == "one_products")))
    return draw(affine_expr(plan.leaves))


def array_literal(draw, dims, type_):
    def elem():
        if type_ == "Boolean":
            return ["bool", draw(st.booleans())]
        if type_ == "Integer":
            k = draw(st.integers(-4, 5))
            return ["int", k] if k >= 0 else ["neg", ["int", -k]]
        k = draw(st.integers(0, 3))
        if k == 0:
            return ["neg", ["real", draw(st.sampled_from(REAL_LITS[:6]))]]
        if k == 1:
            return ["int", draw(st.integers(0, 4))]
        return ["real", draw(st.sampled_from(REAL_LITS))]

    if len(dims) == 1:
        return ["arrlit", [elem() for _ in range(dims[0])]]
    return ["arrlit", [["arrlit", [elem() for _ in range(dims[1])]] for _ in range(dims[0])]]


def array_param_expr(draw, plan):
    """Whole-array expressions of q for a Real variable with dims [2]."""
    A = ["arr", "q"]
    c = draw(st.sampled_from(COEFS))
    forms = [("arr:p", A), ("arr:cp", ["bin", "*", c, A]), ("arr:-p", ["neg", A]), ("arr:p/c", ["bin", "/", A, c]),
             ("arr:p+p", ["bin", "+", A, A])]
    if plan.want_nonaffine(draw):
        P = ["var", draw(st.sampled_from(plan.reals))]
        tag, e = draw(st.sampled_from([("arr:sq", ["bin", ".*", A, A]), ("arr:mul", ["bin", "*", P, A])]))
        return e, "nonaffine:" + tag
    tag, e = draw(st.sampled_from(forms))
    return e, "affine:" + tag


def attr_spec(draw, plan, v, a, allow_params=True):
    dims, type_ = v["dims"], v["type"]
    vtype = "Boolean" if a == "fixed" else type_
    if not dims:
        if a == "fixed" or not allow_params:
            e, tag = (["bool", draw(st.booleans())], "lit:bool") if vtype == "Boolean" else (
                draw(int_literal()) if vtype == "Integer" else draw(real_literal()))
        else:
            e, tag = scalar_expr(draw, plan, vtype)
        return spec(e, tag)
    k = draw(st.integers(0, 9))
    if allow_params and a != "fixed" and type_ == "Real" and dims == [2] and plan.q and k <= 3:
        e, tag = array_param_expr(draw, plan)
        return spec(e, tag)
    if k <= 5 and a != "value":
        if a == "fixed" or not allow_params:
            e, tag = (["bool", draw(st.booleans())], "lit:bool") if vtype == "Boolean" else (
                draw(int_literal()) if vtype == "Integer" else draw(real_literal()))
        else:
            e, tag = scalar_expr(draw, plan, vtype)
        return spec(e, tag, each=True)
    return spec(array_literal(draw, dims, vtype), "lit:array%dd" % len(dims))


def draw_dims(draw, plan):
    k = draw(st.integers(0, 9))
    if k <= 4:
        return []
    if k <= 7:
        if plan.q and draw(st.booleans()):
            return [2]
        return [draw(st.integers(1, 3))]
    return [draw(st.integers(1, 3)), draw(st.integers(1, 3))]


@st.composite
def model_strategy(draw):
    nreal = draw(st.integers(2, 3))
    reals = ["p1", "p2", "p3"][:nreal]
    n = "n" if draw(st.booleans()) else None
    q = "q" if draw(st.booleans()) else None
    pb = "pb" if draw(st.integers(0, 3)) == 0 else None
    mode = draw(st.sampled_from(["affine"] * 3 + ["one_products", "one_nonaffine"] + ["mixed"] * 3))
    plan = Plan(mode, reals, n, q, pb)

    base = []
    for p in reals:
        lit = ["real", draw(st.sampled_from(REAL_LITS[:6]))]
        if draw(st.integers(0, 4)) == 0:
            lit = ["neg", lit]
        base.append(dict(D.var(p, "Real", "parameter"), value=spec(lit, "lit:param_value"), state=False, base=True))
    if n:
        base.append(dict(D.var(n, "Integer", "parameter"), value=spec(["int", draw(st.integers(1, 4))], "lit:param_value"), state=False, base=True))
    if q:
        e = ["arrlit", [["real", draw(st.sampled_from(REAL_LITS[:6]))] for _ in range(2)]]
        base.append(dict(D.var(q, "Real", "parameter", [2]), value=spec(e, "lit:param_value"), state=False, base=True))
    if pb:
        base.append(dict(D.var(pb, "Boolean", "parameter"), value=spec(["bool", draw(st.booleans())], "lit:param_value"), state=False, base=True))
    for b in base:
        # base parameters may carry literal attributes themselves
        if draw(st.integers(0, 3)) == 0:
            for a in draw(st.lists(st.sampled_from(TYPE_ATTRS[b["type"]]), min_size=1, max_size=2, unique=True)):
                b["attrs"][a] = attr_spec(draw, plan, b, a, allow_params=False)

    nv = draw(st.integers(3, 8))
    five = ["state", "algebraic", "input", "constant", "parameter"]
    cats = list(draw(st.permutations(five)))[:nv]
    while len(cats) < nv:
        cats.append(draw(st.sampled_from(five)))
    others = []
    for i, cat in enumerate(cats):
        if cat == "state":
            type_ = "Real"
        elif cat == "input":
            type_ = draw(st.sampled_from(["Real", "Real", "Real", "Integer", "Boolean"]))
        else:
            type_ = draw(st.sampled_from(["Real", "Real", "Integer", "Boolean"]))
        prefix = "" if cat in ("state", "algebraic") else cat
        v = dict(D.var("v%d" % i, type_, prefix, draw_dims(draw, plan)), state=(cat == "state"), base=False)
        v["value"] = None
        allowed = TYPE_ATTRS[type_]
        k = draw(st.integers(0, 5))
        chosen = [] if k == 0 else draw(st.lists(st.sampled_from(allowed), min_size=min(1, k), max_size=min(4, len(allowed)), unique=True))
        for a in chosen:
            v["attrs"][a] = attr_spec(draw, plan, v, a, allow_params=(cat != "constant"))
        if cat == "constant":
            v["value"] = attr_spec(draw, plan, v, "value", allow_params=False)
        elif cat == "parameter" and draw(st.integers(0, 4)) > 0:
            v["value"] = attr_spec(draw, plan, v, "value")
        others.append(v)

    if not any(params_of(sp["e"]) for v in others for sp in list(v["attrs"].values()) + ([v["value"]] if v["value"] else [])):
        # no attribute depends on a parameter: put one on the first Real non-constant variable, if any
        for v in others:
            if v["type"] == "Real" and v["prefix"] != "constant":
                a = draw(st.sampled_from(["start", "min", "max", "nominal"]))
                e, tag = scalar_expr(draw, plan, "Real")
                if not params_of(e):
                    e, tag = draw(affine_expr(plan.leaves))
                v["attrs"][a] = spec(e, tag, each=bool(v["dims"]))
                break
    vars_ = base + others
    if draw(st.booleans()):
        vars_ = list(draw(st.permutations(vars_)))
    return {"vars": vars_}


def _grid(lo, hi):
    return st.integers(int(lo * 1000), int(hi * 1000)).map(lambda k: k / 1000.0)


REAL_POINT = st.one_of(_grid(0.25, 4.0), _grid(0.25, 4.0), _grid(0.25, 4.0), _grid(-4.0, -0.25))


@st.composite
def case_strategy(draw, ctx=None):
    m = draw(model_strategy())
    declared = {}
    for v in m["vars"]:
        if v.get("base"):
            declared[v["name"]] = np.array(D.E({}, "modelica").ev(v["value"]["e"]), dtype=float)
    points = []
    for k in range(draw(st.integers(2, 3))):
        pt = {}
        for v in m["vars"]:
            if not v.get("base"):
                continue
            if v["type"] == "Real":
                val = [draw(REAL_POINT) for _ in range(numel(v))]
                if k == 0:
                    # the first point differs from the declared value in every parameter
                    dv = declared[v["name"]].reshape(-1)
                    val = [x + 0.125 if abs(x - float(d)) < 1e-3 else x for x, d in zip(val, dv)]
            elif v["type"] == "Integer":
                val = [draw(st.sampled_from([1, 2, 3, 4, 5, -1, -2]))]
                if k == 0 and val[0] == int(declared[v["name"]]):
                    val = [val[0] + 1]
            else:
                val = [1.0 if draw(st.booleans()) else 0.0]
                if k == 0:
                    val = [1.0 - float(declared[v["name"]])]
            pt[v["name"]] = val if v["dims"] else val[0]
        points.append(pt)
    return {"model": m, "points": points, "again": draw(st.integers(0, 2)) == 0}


def shard(ctx):
    drive(ctx, case_strategy(ctx), check_case, ctx.share(1200, 30000))


def replay(ctx, case):
    check_case(ctx, case)


MANIFEST = dict(
    text="Generated flat models put literal, array-literal, `each`, affine and non-affine parameter expressions on "
    "start/min/max/nominal/fixed and on declaration values of Real/Integer/Boolean scalars and arrays in every "
    "variable category.  A reference evaluator computes each attribute from the abstract expression at drawn "
    "parameter values (different from the declared ones); the Variable objects, every entry of "
    "variable_metadata_function (both the affine rebuild and the direct path, labelled) and the Python types of "
    "Integer/Boolean variables are compared with it, unspecified attributes with the stated defaults.  Sampling.",
    note="Trusts the reference evaluator (vf/gen/expr.py, vf/gen/dae.py E), the ~40-line printer here and CasADi's numeric evaluation.",
    technique="property-based differential testing: attribute values / metadata function vs reference evaluator at generated parameter points",
)
