"""C15 - Simplification keeps regular systems square and self-contained.

Same generator and runs as C14 (vf/props/c14.py: triangular models with a
unique solution x random simplification option sets); this check asserts the
counting invariant and constructability instead of solution preservation."""
from vf.core import drive
from vf.props import c14

ID = "C15"
LEVEL = "exploration"
RULE = (
    "same (model, option set) space as C14: square nonsingular triangular models x random "
    "simplification option sets.  checked per case: (#states + #alg_states) - #residual entries is "
    "the same before and after simplify (element-wise), and dae_residual_function / "
    "initial_residual_function can be constructed and evaluated (CasADi rejects free symbols at "
    "construction: that is the 'refers to an eliminated variable' detector).  non-trivial = at "
    "least one unknown or equation was removed; distinct = distinct (model, options)."
)
ASSUMPTIONS = [
    "an exception raised by generate() or simplify() itself is pymoca rejecting the option set / reporting failure and is a counted discard; once simplify returns, the invariant must hold (warnings do not excuse it)",
    "only the two residual functions are required to be constructible (the statement's 'simplified residual functions')",
]
SOFT_BUDGET_S = c14.SOFT_BUDGET_S


def check_case(ctx, case):
    return c14.run_case(ctx, case, "C15")


def shard(ctx):
    drive(ctx, c14.case_strategy(), check_case, ctx.share(1000, 20000))


def replay(ctx, case):
    check_case(ctx, case)


MANIFEST = dict(
    text="For generated square nonsingular models under random simplification option sets, the number "
    "of unknowns minus the number of residual entries must not change and both residual functions "
    "must be constructible and evaluable (no free symbol of an eliminated variable).",
    note="Shares C14's generator; counts are element-wise over the model's own variable lists.",
    technique="property-based testing: counting invariant + constructability over generated (model, option set) pairs",
)
