"""C07 - Hierarchical flattening instantiates every component once.

Generated class libraries (vf.gen.lib) are printed, parsed and flattened by
pymoca; the flat class is compared with the reference flattener (vf.ref.flat)
working on the abstract library: same variable names, builtin type, prefixes
(input/output only at top level), dimensions, and the same multiset of
equations with every reference renamed."""
from collections import Counter

from hypothesis import strategies as st

from vf.core import Violation, drive, guarded
from vf.gen import lib as L
from vf.ref import flat as F

ID = "C07"
LEVEL = "exploration"
RULE = (
    "libraries of <= 7 classes (models, packages with nested models, local nested classes, type "
    "aliases of Real/Integer/Boolean), instantiation depth <= 4, several instances of a class, "
    "single/multiple extends incl. bases from enclosing scopes, scalar arrays, every leaf prefix "
    "combination, equations/initial equations/der over own, inherited and sub-component variables; "
    "one drawn model is flattened.  non-trivial = >= 2 instances of one class at different paths "
    "and >= 1 equation referencing a variable >= 2 levels down or inherited; distinct = distinct library+target."
)
ASSUMPTIONS = [
    "class names are unique in the library (no shadowing of a type name between scopes)",
    "prefixes are only put on elementary components; arrays only of scalars (arrays of components are C18's domain)",
    "equations are compared as multisets of canonical strings: order across instances is not specified",
    "the 'state' marker pymoca adds to differentiated variables is ignored here (C10 owns it)",
]


def instances(lib, cid, prefix=""):
    """[(class id, path)] of every component instance of model classes."""
    out = []
    c = lib.cls(cid)
    for e in c.get("extends", []):
        out += instances(lib, e["cls"], prefix)
    for comp in c.get("comps", []):
        t = comp["cls"]
        if t not in L.BUILTIN and lib.cls(t)["kind"] == "model":
            out.append((t, prefix + comp["name"]))
            out += instances(lib, t, prefix + comp["name"] + ".")
    return out


def deep_or_inherited_ref(lib, cid):
    """Does some equation of an instantiated class reference a variable two
    levels down, or an inherited one?"""

    def refs(e):
        from vf.gen.expr import walk

        return [n[1] for n in walk(e) if n[0] in ("var", "idx")]

    def check(k):
        c = lib.cls(k)
        own = {comp["name"] for comp in c.get("comps", [])}
        for q in c.get("eqs", []) + c.get("ieqs", []):
            for r in refs(q[0]) + refs(q[1]):
                parts = r.split(".")
                if len(parts) >= 3 or parts[0] not in own:
                    return True
        return False

    seen = {cid} | set(lib.bases(cid)) | {t for t, _ in instances(lib, cid)}
    more = set()
    for t in seen:
        more |= set(lib.bases(t))
    return any(check(k) for k in seen | more)


def has_foreign_base(lib, target):
    """Known-finding feature: some instantiated class inherits from a base in a
    foreign scope whose elements name classes only visible from the base's scope."""
    todo, seen = [target], set()
    while todo:
        k = todo.pop()
        if k in seen or k in L.BUILTIN:
            continue
        seen.add(k)
        c = lib.cls(k)
        for e in c.get("extends", []):
            if L.foreign_nonportable(lib.data["classes"], e["cls"], [k] + lib.ancestors(k)):
                return True
            todo.append(e["cls"])
        todo += [comp["cls"] for comp in c.get("comps", [])]
        todo += [ch["id"] for ch in lib.children(k)]
    return False


def check_case(ctx, case):
    try:
        return _check_case(ctx, case)
    except Violation as v:
        if has_foreign_base(L.Lib(case["lib"]), case["target"]):
            v.kind += "+inherited_lookup_scope"
        if L.shadows_toplevel(case["lib"]):
            v.kind += "+shadowed_toplevel_class"
        raise


def _check_case(ctx, case):
    from pymoca import ast, parser, tree

    lib = L.Lib(case["lib"])
    target = case["target"]
    text = L.print_lib(lib)
    t = guarded(parser.parse, text, bypass_cache=True, where="parse")
    if t is None:
        raise Violation("valid_text_rejected", "parse returned None for:\n" + text)
    path = ".".join(lib.path(target))
    flat_tree = guarded(tree.flatten, t, ast.ComponentRef.from_string(path), where="flatten")
    if path not in flat_tree.classes:
        raise Violation("flat_class_missing", "flatten(%s) returned classes %r" % (path, list(flat_tree.classes)))
    fc = flat_tree.classes[path]
    ref = F.instantiate(lib, target)
    got_names, exp_names = set(fc.symbols.keys()), set(ref.vars.keys())
    if got_names != exp_names:
        raise Violation(
            "variable_names",
            "flatten(%s): extra %r missing %r\n%s" % (path, sorted(got_names - exp_names), sorted(exp_names - got_names), text),
        )
    for name, rv in ref.vars.items():
        sym = fc.symbols[name]
        if sym.name != name:
            raise Violation("symbol_name_field", "symbols[%r].name == %r" % (name, sym.name))
        tname = sym.type.name if isinstance(sym.type, ast.ComponentRef) else repr(sym.type)
        if tname != rv["type"]:
            raise Violation("variable_type", "%s: type %s expected %s\n%s" % (name, tname, rv["type"], text))
        gp = set(sym.prefixes) - {"state"}
        if gp != set(rv["prefixes"]):
            lost = set(rv["prefixes"]) - gp
            extra = gp - set(rv["prefixes"])
            kind = "io_kept_below_top" if extra & {"input", "output"} else ("io_lost_at_top" if lost & {"input", "output"} else "other")
            raise Violation("variable_prefixes:" + kind, "%s: prefixes %r expected %r\n%s" % (name, sorted(gp), rv["prefixes"], text))
        if F.flat_dims(sym) != rv["dims"]:
            raise Violation("variable_dimensions", "%s: dims %r expected %r\n%s" % (name, F.flat_dims(sym), rv["dims"], text))
    exp_eqs = Counter(F.canon_eq_abs(q) for q in ref.eqs)
    for name, rv in ref.vars.items():
        if "value" in rv["attrs"] and not ({"parameter", "constant"} & set(rv["prefixes"])):
            exp_eqs[F.canon_eq_abs([["var", name], rv["attrs"]["value"]])] += 1
        if "flow" in rv["prefixes"]:
            # a flow variable that appears in no connection is zero (C09's rule, applied by flatten)
            exp_eqs["(= %s 0)" % name] += 1
    got_eqs = Counter(F.canon_ast(q) for q in fc.equations)
    if got_eqs != exp_eqs:
        raise Violation(
            "equations",
            "flatten(%s): unexpected %r missing %r\n%s" % (path, dict(got_eqs - exp_eqs), dict(exp_eqs - got_eqs), text),
        )
    exp_ieqs = Counter(F.canon_eq_abs(q) for q in ref.ieqs)
    got_ieqs = Counter(F.canon_ast(q) for q in fc.initial_equations)
    if got_ieqs != exp_ieqs:
        raise Violation(
            "initial_equations",
            "flatten(%s): unexpected %r missing %r\n%s" % (path, dict(got_ieqs - exp_ieqs), dict(exp_ieqs - got_ieqs), text),
        )
    inst = instances(lib, target)
    cnt = Counter(k for k, _ in inst)
    multi = any(v >= 2 for v in cnt.values())
    deep = deep_or_inherited_ref(lib, target)
    labels = []
    if multi:
        labels.append("multi_instance")
    if deep:
        labels.append("deep_or_inherited_ref")
    if lib.bases(target):
        labels.append("extends")
    if len(lib.cls(target).get("extends", [])) > 1:
        labels.append("multiple_extends")
    if lib.cls(target)["parent"]:
        labels.append("nested_target")
    if any(lib.cls(k)["parent"] and lib.cls(lib.cls(k)["parent"])["kind"] == "model" for k, _ in inst):
        labels.append("local_class_instance")
    if any(lib.cls(b)["parent"] for b in lib.bases(target)):
        labels.append("base_in_scope")
    if any(v["dims"] for v in ref.vars.values()):
        labels.append("array")
    depth = max([p.count(".") + 1 for p in ref.vars] or [0])
    labels.append("depth:%d" % depth)
    if any(lib.cls(c["cls"])["kind"] == "type" for k in [target] + [x for x, _ in inst] for c in lib.cls(k).get("comps", []) if c["cls"] not in L.BUILTIN):
        labels.append("type_alias")
    shadow = [c["id"] for c in lib.data["classes"] if "name" in c]
    if shadow:
        labels.append("shadowed_class_name")
        if "GX" in shadow:
            labels.append("shadow_gadget" + (":target" if target in ("GM", "GT") else ""))
        reach = {target} | set(lib.bases(target)) | {k for k, _ in inst}
        for k in list(reach):
            reach |= set(lib.bases(k))
        if shadow[0] in reach or lib.cls(shadow[0])["parent"] in reach:
            labels.append("shadowed_class_name:reached_by_target")
    return dict(nontrivial=multi and deep, labels=labels, sample={"target": path, "text": text})


@st.composite
def case_strategy(draw, ctx=None):
    known = ctx is not None and ctx.known("inherited_lookup_scope")
    data = draw(L.library(L.Opts(max_classes=7, foreign_bases=not known, on_exclude=ctx.exclude if ctx else None)))
    top_ok = not (ctx is not None and ctx.known("shadowed_toplevel_class"))
    excl = ctx.exclude if ctx else None
    if draw(st.integers(0, 2)) == 0:
        draw(L.add_shadow(data, top_ok, excl))  # one nested class gets the name of a class of another scope
    gadget_target = None
    if draw(st.integers(0, 7)) == 0:
        gadget_target = draw(L.shadow_gadget(data, top_ok, excl))  # a nested class shadowing a type that another base class uses
    lib = L.Lib(data)
    assert lib.valid_names(), data
    if gadget_target is not None and draw(st.integers(0, 3)) != 0:
        return {"lib": data, "target": gadget_target}
    # prefer targets that instantiate something
    memo = {}
    models = sorted(lib.models(), key=lambda k: -L.depth_of(data["classes"], k, memo))
    target = draw(st.sampled_from(models[:2] if draw(st.integers(0, 3)) else models))
    return {"lib": data, "target": target}


def shard(ctx):
    drive(ctx, case_strategy(ctx), check_case, ctx.share(2400, 80000))


def replay(ctx, case):
    check_case(ctx, case)


MANIFEST = dict(
    text="Generated component/extends hierarchies are flattened by pymoca and by an independent "
    "reference flattener working on the abstract library; variable names, types, prefixes, "
    "dimensions and the multiset of renamed equations must agree in both directions (nothing "
    "missing, nothing extra).  Sampling over hierarchies to depth 4.",
    note="Trusts the 120-line reference flattener (MLS ch. 5/7 on the generated subset) and the printer; in a third of the libraries one nested class carries the name of a class of another scope (shadowing), otherwise class names are unique.",
    technique="property-based differential testing against a reference flattener (model-based oracle)",
)
