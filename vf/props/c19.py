"""C19 - Cached and code-generated models equal fresh compiles.

One case = one flat model (own generator, printed with vf.gen.dae) + one
option set + a mode (cache | codegen).  The model text goes into a private
folder as M.mo (mtime far in the past, so the mtime check of load_model can
never interfere); then

  ref = api._compile_model(<copy of the folder that never holds a cache>)
  m1  = api.transfer_model(folder, "M", opts)     fresh Model, writes the cache
  m2  = api.transfer_model(folder, "M", opts)     must be an api.CachedModel
  m3  = api.transfer_model(folder, "M", opts)     (some cases) again CachedModel

and m1, m2, m3 must each match ref: vf.canon.compare_models (names, order,
shapes, python_type, aliases per variable, outputs, delay states, String
parameters/constants, alias relation, attribute values at 2 drawn parameter
points, the four functions at 3 drawn points with identical inputs) plus the
local checks of `compare_extra` below.
"""
import os
import shutil
import tempfile

import numpy as np
from hypothesis import strategies as st

from vf import canon, env
from vf.core import Discard, Violation, case_hash, exc_kind, pymoca_frame
from vf.gen import dae as D

ID = "C19"
LEVEL = "exploration"
RULE = (
    "case = (flat model, option set, mode).  model: Real/Integer/Boolean scalars and one common-length "
    "(2-3) family of 1-D arrays in every category - states x0,x1,xa[], algebraics a0..a3, v[], w[], "
    "Integer k, Boolean b, outputs y, ya[], inputs u, ua[], ui, ub, parameters p, q (literal or "
    "expression of p), pa[], Integer n, Boolean pb, constants c, c1 = 2*c, cv[], ci - declared in a "
    "drawn order (so scalars follow arrays within a category); every variable gets each of its "
    "candidate attributes (min,max,start,nominal,fixed; value for parameters) with probability ~1/3 as "
    "a literal, an affine parameter expression (2*p, p+q, -q, n, pa, 2*pa), a non-affine one (p*q, "
    "abs(p), p^2, sqrt(p), max(p,q), p*pa) or - only under replace_constant_values - a constant "
    "expression; array variables take scalar (with/without `each`), literal-array or array-parameter "
    "attributes; algebraics are defined by expressions, alias equations (a = b, a = -b, array = array, "
    "Integer = Integer input, Boolean = Boolean input), time functions or delay() with "
    "parameter/constant/literal durations (0-2 delays); 0-2 String parameters/constants.  options: "
    "cache=True (quick 240 cases, thorough 6000), or codegen=True (quick: one case on each of shards 0..5; thorough: 300), plus each of "
    "expand_vectors, detect_aliases, replace_parameter_expressions, replace_constant_expressions, "
    "replace_constant_values, eliminate_constant_assignments (p ~ 0.3 .. 0.45) and "
    "resolve_parameter_values, replace_parameter_values (p ~ 0.13 each; they remove the parameters).  "
    "non-trivial = the cache-free reference compile has >= 1 parameter-dependent attribute or >= 1 "
    "delay state AND the second transfer_model call returned a CachedModel; distinct = distinct case JSON."
)
ASSUMPTIONS = [
    "reference = api._compile_model on a copy of the source in a folder that never holds a cache file, "
    "with the options transfer_model compiles with (defaults merged; expand_mx forced on in cache mode): "
    "parser, flattening, generator and simplify are trusted to be deterministic, only save_model / "
    "load_model / transfer_model are under test",
    "domain = (model, options) for which that reference compile succeeds and its four functions can be "
    "constructed; everything else is a counted discard (e.g. detect_aliases with array-valued "
    "attributes, attributes that depend on a constant that was not substituted, replace_parameter_values "
    "with a parameter delay duration: the FRESH compile raises, which is not this property).  Inside the "
    "domain any exception from transfer_model - first call (compile+save) or later calls (load) - is a violation",
    "the source file gets an mtime of 2017 (os.utime), the cache file is written 'now': the mtime check "
    "always passes, so a second call that is not a CachedModel is reported (cache_not_used)",
    "'attribute values (for any parameter values)': MX attributes are evaluated through a ca.Function of "
    "their free symbols bound by NAME to drawn parameter values (vf.canon.attr_value); in addition an "
    "attribute (or delay duration) that has no free symbols in the fresh compile - a number, whatever the "
    "parameters are - must have no free symbols in the loaded model either (it must be usable without "
    "supplying parameter values; this is what save_model's MX_INDEPENDENT classification and load_model's "
    "NaN evaluation exist for).  Spurious extra symbols in a parameter-DEPENDENT attribute/duration are "
    "not judged (the loaded expression is a call of the metadata function on all parameters, by design); "
    "they are counted in the evidence (cached_duration_keeps_false_dependency)",
    "'Python types': Variable.python_type for every variable, and for Integer/Boolean variables the "
    "Python type of every attribute value that is not an MX in the fresh compile (type identity after "
    "the pickle round trip); `fixed` is compared by truthiness",
    "'delay states are the same' is taken to include model.delay_arguments (expression and duration "
    "of every delay state): evaluated as functions of the model's OWN symbols (time, states, "
    "derivatives, algebraics, inputs, constants, parameters) at drawn points with identical inputs",
    "a scalar attribute of an array variable and an array attribute with equal entries are the same "
    "attribute value (vf.canon.same_num broadcasts size-1 values), so `each max = 2*p` may come back "
    "as a vector",
    "codegen: gcc via setuptools' distutils as /repo uses it; every case has its own folder, so the "
    "dynamic loader never sees the same library path twice (library reuse within one process is C20's report)",
    "numeric comparisons: rtol = atol = 1e-8 for functions, rtol 1e-9 for attribute values, NaN equals NaN",
]
SHARDS = {"quick": 16, "thorough": 16}
SOFT_BUDGET_S = {"quick": 300, "thorough": 2400}

CATS5 = ("states", "alg_states", "inputs", "parameters", "constants")
ALLCATS = ("states", "der_states", "alg_states", "inputs", "constants", "parameters")
SOURCE_MTIME = 1_500_000_000

SIMPLIFY_OPTS = [
    # (name, weight out of 6)
    ("expand_vectors", 3),
    ("detect_aliases", 3),
    ("replace_parameter_expressions", 2),
    ("replace_constant_expressions", 2),
    ("replace_constant_values", 2),
    ("eliminate_constant_assignments", 2),
    ("resolve_parameter_values", 1),
    ("replace_parameter_values", 1),
]


# --------------------------------------------------------------------------
# generator
# --------------------------------------------------------------------------
def V(name):
    return ["var", name]


def A(name):
    return ["arr", name]


def I(k):  # noqa: E743
    return ["int", k] if k >= 0 else ["neg", ["int", -k]]


def R(txt):
    return ["real", txt]


def mul(a, b):
    return ["bin", "*", a, b]


def add(a, b):
    return ["bin", "+", a, b]


def sub(a, b):
    return ["bin", "-", a, b]


def neg(a):
    return ["neg", a]


def call(f, *args):
    return ["call", f] + list(args)


REAL_LITS = [R("1.5"), R("0.75"), I(2), R("2.5"), I(3), neg(R("1.25")), I(-4), R("10.0"), I(0), R("3.14159265358979"), R("1.0000001")]
INT_LITS = [I(1), I(2), I(3), I(5), I(-2), I(0)]


@st.composite
def option_set(draw, mode):
    o = {}
    for k, w in SIMPLIFY_OPTS:
        if 1 <= draw(st.integers(0, 5)) <= w:  # (0 is over-represented in Hypothesis' small-range draws)
            o[k] = True
    if mode == "codegen" and draw(st.booleans()):
        o["expand_mx"] = True  # cache mode forces it; codegen may compile MX or SX functions
    return o


@st.composite
def flat_model(draw, opts):
    n = draw(st.integers(2, 3))
    has_q = draw(st.integers(0, 4)) > 0
    has_pa = draw(st.integers(0, 3)) > 0
    has_n = draw(st.integers(0, 3)) > 0
    has_pb = draw(st.integers(0, 2)) == 0
    has_c = draw(st.integers(0, 4)) > 0
    # a constant whose value is an expression of a constant needs one of the two options (else
    # the fresh compile cannot build its metadata function: not this property)
    has_c1 = has_c and bool(opts.get("replace_constant_expressions") or opts.get("replace_constant_values")) \
        and draw(st.booleans())
    has_cv = draw(st.integers(0, 3)) == 0
    has_ci = draw(st.integers(0, 3)) == 0
    has_x1 = draw(st.booleans())
    has_xa = draw(st.integers(0, 2)) > 0
    has_u = draw(st.integers(0, 4)) > 0
    has_ua = draw(st.integers(0, 2)) == 0
    has_ui = draw(st.integers(0, 3)) == 0
    has_ub = draw(st.integers(0, 3)) == 0
    n_alg = draw(st.integers(1, 4))
    arrs = draw(st.sampled_from([[], ["v"], ["v"], ["v", "w"], ["v", "w"]]))
    has_k = draw(st.integers(0, 2)) == 0
    has_b = draw(st.integers(0, 2)) == 0
    has_y = draw(st.integers(0, 3)) > 0
    has_ya = bool(arrs or has_xa) and draw(st.integers(0, 2)) == 0
    const_attrs = has_c and bool(opts.get("replace_constant_values"))
    feats = set()

    p, q = V("p"), V("q")

    # ---- attribute expression pools ------------------------------------
    affine = [mul(I(2), p), neg(p), add(p, I(1)), ["bin", "/", p, I(2)], add(mul(p, I(2)), R("0.5"))]
    nonaff = [call("abs", p), ["bin", "^", p, I(2)], call("sqrt", p), mul(p, p)]
    if has_q:
        affine += [add(p, q), neg(q), sub(mul(I(2), q), p), q]
        nonaff += [mul(p, q), call("max", p, q), call("min", p, q), call("abs", sub(p, q))]
    if has_n:
        affine += [V("n"), add(p, V("n"))]
    arr_affine, arr_nonaff = [], []
    if has_pa:
        arr_affine = [A("pa"), mul(I(2), A("pa")), neg(A("pa"))]
        arr_nonaff = [mul(p, A("pa"))]
        affine.append(["idx", "pa", 1])
        nonaff.append(mul(p, ["idx", "pa", n]))
    constdep = [neg(V("c")), mul(I(2), V("c")), add(V("c"), p)] if const_attrs else []
    int_dep = [V("n"), mul(I(2), V("n")), neg(V("n")), add(V("n"), I(1))] if has_n else []
    int_nonaff = [mul(V("n"), V("n"))] if has_n else []

    def real_attr(is_array):
        kinds = ["lit", "lit", "affine", "affine", "nonaff"]
        if constdep:
            kinds.append("const")
        if is_array:
            kinds += ["arrlit", "arrlit"]
            if has_pa:
                kinds += ["arr_affine", "arr_affine", "arr_nonaff"]
        kind = draw(st.sampled_from(kinds))
        feats.add("attr_gen:" + kind)
        if kind == "lit":
            return draw(st.sampled_from(REAL_LITS))
        if kind == "affine":
            return draw(st.sampled_from(affine))
        if kind == "nonaff":
            return draw(st.sampled_from(nonaff))
        if kind == "const":
            return draw(st.sampled_from(constdep))
        if kind == "arrlit":
            return ["arrlit", [draw(st.sampled_from(REAL_LITS)) for _ in range(n)]]
        if kind == "arr_affine":
            return draw(st.sampled_from(arr_affine))
        return draw(st.sampled_from(arr_nonaff))

    def int_attr():
        kinds = ["lit", "lit"] + (["dep", "dep", "nonaff"] if has_n else [])
        kind = draw(st.sampled_from(kinds))
        feats.add("attr_gen:int_" + kind)
        if kind == "lit":
            return draw(st.sampled_from(INT_LITS))
        if kind == "dep":
            return draw(st.sampled_from(int_dep))
        return draw(st.sampled_from(int_nonaff))

    def attrs_for(type_, is_array, names):
        out = {}
        for a in names:
            if draw(st.integers(0, 2)) != 0:
                continue
            if a == "fixed":
                e = ["bool", draw(st.booleans())]
                if has_pb and draw(st.booleans()):
                    e = V("pb")  # fixed given by a Boolean parameter
                    feats.add("attr_gen:fixed_by_parameter")
            elif type_ == "Boolean":
                e = ["bool", draw(st.booleans())]
            elif type_ == "Integer":
                e = int_attr()
            else:
                e = real_attr(is_array)
            key = a
            if is_array and e[0] not in ("arrlit",) and not _is_array_expr(e) and draw(st.booleans()):
                key = "each " + a
                feats.add("attr_gen:each")
            out[key] = e
        return out

    vars_ = []

    # ---- parameters ------------------------------------------------------
    vars_.append(D.var("p", prefix="parameter", value=draw(st.sampled_from([R("1.5"), R("2.0"), R("0.75")])),
                       attrs=attrs_lit(draw, ["min", "max"])))
    if draw(st.integers(0, 3)) == 0:
        # a matrix-shaped parameter ahead of the parameters whose attributes depend on p
        shape = draw(st.sampled_from([[2, 2], [2, 3], [3, 2]]))
        vars_.append(D.var("pm", prefix="parameter", dims=shape,
                           value=["arrlit", [["arrlit", [R("%d.%d" % (i + 1, j + 1)) for j in range(shape[1])]] for i in range(shape[0])]]))
        feats.add("matrix_parameter")
    if has_q:
        qv = draw(st.sampled_from([R("3.0"), R("0.5"), mul(I(2), p), add(p, I(1)), mul(p, p)]))
        qa = {}
        if draw(st.integers(0, 2)) == 0:
            qa["min"] = draw(st.sampled_from([neg(p), R("0.0"), mul(R("0.5"), p)]))
        if draw(st.integers(0, 2)) == 0:
            qa["max"] = draw(st.sampled_from([mul(I(3), p), R("100.0"), call("abs", mul(I(4), p))]))
        vars_.append(D.var("q", prefix="parameter", value=qv, attrs=qa))
    if has_pa:
        vars_.append(D.var("pa", prefix="parameter", dims=[n],
                           value=["arrlit", [draw(st.sampled_from([R("1.0"), R("2.0"), R("0.5"), R("3.5")])) for _ in range(n)]],
                           attrs=({"each max": draw(st.sampled_from([R("50.0"), mul(I(20), p)]))} if draw(st.integers(0, 3)) == 0 else {})))
    if has_n:
        vars_.append(D.var("n", "Integer", prefix="parameter", value=I(draw(st.integers(2, 4))),
                           attrs=({"max": I(10)} if draw(st.integers(0, 3)) == 0 else {})))
    if has_pb:
        vars_.append(D.var("pb", "Boolean", prefix="parameter", value=["bool", draw(st.booleans())]))
    # ---- constants -------------------------------------------------------
    if has_c:
        vars_.append(D.var("c", prefix="constant", value=draw(st.sampled_from([R("1.25"), R("0.5")]))))
    if has_c1:
        vars_.append(D.var("c1", prefix="constant", value=mul(I(2), V("c"))))
    if has_cv:
        vars_.append(D.var("cv", prefix="constant", dims=[n], value=["arrlit", [R("%d.5" % i) for i in range(n)]]))
    if has_ci:
        vars_.append(D.var("ci", "Integer", prefix="constant", value=I(draw(st.integers(1, 3)))))
    # ---- strings ---------------------------------------------------------
    for i in range(draw(st.integers(0, 2))):
        vars_.append(D.var("s%d" % i, "String", prefix=draw(st.sampled_from(["parameter", "parameter", "constant"])),
                           value=["str", draw(st.sampled_from(["fast", "slow", "a b", ""]))]))
    # ---- inputs ----------------------------------------------------------
    if draw(st.integers(0, 4)) == 0:
        vars_.append(D.var("um", prefix="input", dims=draw(st.sampled_from([[2, 2], [2, 3]]))))  # matrix input first
        feats.add("matrix_input")
    if has_u:
        vars_.append(D.var("u", prefix="input", attrs=attrs_for("Real", False, ["min", "max", "nominal", "fixed"])))
    if has_ua:
        vars_.append(D.var("ua", prefix="input", dims=[n], attrs=attrs_for("Real", True, ["min", "max", "nominal"])))
    if has_ui:
        vars_.append(D.var("ui", "Integer", prefix="input", attrs=attrs_for("Integer", False, ["min", "max"])))
    if has_ub:
        vars_.append(D.var("ub", "Boolean", prefix="input", attrs=attrs_for("Boolean", False, ["start", "fixed"])))
    # ---- states ----------------------------------------------------------
    state_attrs = ["min", "max", "start", "nominal", "fixed"]
    vars_.append(D.var("x0", attrs=attrs_for("Real", False, state_attrs)))
    if has_x1:
        vars_.append(D.var("x1", attrs=attrs_for("Real", False, state_attrs)))
    if has_xa:
        vars_.append(D.var("xa", dims=[n], attrs=attrs_for("Real", True, state_attrs)))

    eqs = []
    rate = p if not has_c or draw(st.booleans()) else V("c")
    eqs.append(["eq", ["der", V("x0")], add(mul(neg(rate), V("x0")), V("u") if has_u else R("1.0"))])
    if has_x1:
        eqs.append(["eq", ["der", V("x1")], sub(V("x0"), mul(q if has_q else R("0.5"), V("x1")))])
    if has_xa:
        eqs.append(["eq", ["der", A("xa")], mul(neg(p), A("xa"))])

    # ---- algebraic variables ----------------------------------------------
    scalars = [V("x0")] + ([V("x1")] if has_x1 else []) + ([V("u")] if has_u else [])
    coefs = [p, R("2.0"), R("0.5")] + ([q] if has_q else []) + ([V("c")] if has_c else []) \
        + ([V("c1")] if has_c1 else []) + ([["idx", "pa", 1]] if has_pa else []) + ([["idx", "cv", n]] if has_cv else [])
    durations = [R("0.5"), R("1.0")] + ([V("c"), V("c")] if has_c else [])
    if not opts.get("replace_parameter_values"):
        # (with that option a fresh compile cannot build delay_arguments_function for a parameter duration)
        durations += [p, p, mul(I(2), p)] + ([q, add(p, q)] if has_q else []) + ([["idx", "pa", 2]] if has_pa else [])
    n_delay = 0
    alg_decl = []  # (var dict) in generation order; shuffled into vars_ below

    def small():
        e = mul(draw(st.sampled_from(coefs)), draw(st.sampled_from(scalars)))
        if draw(st.booleans()):
            e = add(e, mul(draw(st.sampled_from(coefs)), draw(st.sampled_from(scalars))))
        return e

    def delay_call():
        arg = draw(st.sampled_from(scalars))
        if draw(st.integers(0, 3)) == 0:
            arg = add(arg, draw(st.sampled_from(scalars)))
        return call("delay", arg, draw(st.sampled_from(durations)))

    real_attr_names = ["min", "max", "start", "nominal"]
    for j in range(n_alg):
        name = "a%d" % j
        kinds = ["alias", "alias", "alias_neg", "expr", "time"]
        if n_delay < 2:
            kinds += ["delay", "delay"]
        kind = draw(st.sampled_from(kinds))
        feats.add("eq_gen:" + kind)
        w = V(name)
        if kind == "alias":
            tgt = draw(st.sampled_from(scalars))
            eqs.append(["eq", w, tgt] if draw(st.booleans()) else ["eq", tgt, w])
        elif kind == "alias_neg":
            tgt = draw(st.sampled_from(scalars))
            eqs.append(["eq", w, neg(tgt)] if draw(st.booleans()) else ["eq", add(w, tgt), I(0)])
        elif kind == "expr":
            eqs.append(["eq", w, small()])
        elif kind == "time":
            eqs.append(["eq", w, add(mul(draw(st.sampled_from(coefs)), call("sin", ["time"])), draw(st.sampled_from(scalars)))])
        else:
            n_delay += 1
            d = delay_call()
            eqs.append(["eq", w, d if draw(st.booleans()) else add(d, draw(st.sampled_from(scalars)))])
        alg_decl.append(D.var(name, attrs=attrs_for("Real", False, real_attr_names)))
        scalars.append(w)

    arrays = (["xa"] if has_xa else []) + (["ua"] if has_ua else [])
    for name in arrs:
        kinds = ["elems", "elems"]
        if arrays:
            kinds += ["scaled", "alias", "alias", "alias_neg"]
        kind = draw(st.sampled_from(kinds))
        feats.add("eq_gen:array_" + kind)
        if kind == "elems":
            for i in range(1, n + 1):
                eqs.append(["eq", ["idx", name, i], small()])
        elif kind == "scaled":
            eqs.append(["eq", A(name), mul(draw(st.sampled_from([p, R("2.0")])), A(draw(st.sampled_from(arrays))))])
        elif kind == "alias":
            eqs.append(["eq", A(name), A(draw(st.sampled_from(arrays)))])
        else:
            eqs.append(["eq", A(name), neg(A(draw(st.sampled_from(arrays))))])
        alg_decl.append(D.var(name, dims=[n], attrs=attrs_for("Real", True, real_attr_names)))
        arrays.append(name)

    if has_k:
        kinds = ["lit"] + (["par", "par"] if has_n else []) + (["alias", "alias"] if has_ui else []) + (["const"] if has_ci else [])
        kind = draw(st.sampled_from(kinds))
        feats.add("eq_gen:int_" + kind)
        rhs = {"lit": I(3), "par": add(V("n"), I(1)), "alias": V("ui"), "const": mul(I(2), V("ci"))}[kind]
        eqs.append(["eq", V("k"), rhs])
        alg_decl.append(D.var("k", "Integer", attrs=attrs_for("Integer", False, ["min", "max", "start"])))
    if has_b:
        kinds = ["rel", "lit"] + (["alias", "alias", "not"] if has_ub else []) + (["par"] if has_pb else [])
        kind = draw(st.sampled_from(kinds))
        feats.add("eq_gen:bool_" + kind)
        rhs = {"rel": ["rel", ">", V("x0"), p], "lit": ["bool", True], "alias": V("ub"), "not": ["not", V("ub")],
               "par": V("pb")}[kind]
        eqs.append(["eq", V("b"), rhs])
        alg_decl.append(D.var("b", "Boolean", attrs=attrs_for("Boolean", False, ["start", "fixed"])))
    if has_y:
        kind = draw(st.sampled_from(["alias", "alias_neg", "expr"]))
        feats.add("eq_gen:output_" + kind)
        tgt = draw(st.sampled_from(scalars))
        eqs.append(["eq", V("y"), {"alias": tgt, "alias_neg": neg(tgt), "expr": add(tgt, small())}[kind]])
        alg_decl.append(D.var("y", prefix="output", attrs=attrs_for("Real", False, ["min", "max", "nominal"])))
    if has_ya:
        src = draw(st.sampled_from(arrays))
        eqs.append(["eq", A("ya"), A(src) if draw(st.booleans()) else mul(R("2.0"), A(src))])
        alg_decl.append(D.var("ya", prefix="output", dims=[n], attrs=attrs_for("Real", True, ["min", "max"])))

    vars_ += alg_decl
    vars_ = list(draw(st.permutations(vars_)))
    eqs = list(draw(st.permutations(eqs)))
    ieqs = []
    if draw(st.integers(0, 2)) == 0:
        ieqs.append(["eq", V("x0"), draw(st.sampled_from([R("1.0"), p, mul(I(2), p)]))])
    model = {"name": "M", "n": n, "m": 1, "vars": vars_, "funcs": [], "eqs": eqs, "ieqs": ieqs}
    return model, sorted(feats)


def attrs_lit(draw, names):
    out = {}
    for a in names:
        if draw(st.integers(0, 3)) == 0:
            out[a] = R("-100.0") if a == "min" else R("100.0")
    return out


def _is_array_expr(e):
    if e[0] in ("arr", "arrlit"):
        return True
    if e[0] == "neg":
        return _is_array_expr(e[1])
    if e[0] == "bin":
        return _is_array_expr(e[2]) or _is_array_expr(e[3])
    return False


@st.composite
def case_strategy(draw, mode="cache"):
    opts = draw(option_set(mode))
    model, feats = draw(flat_model(opts))
    # sometimes the folder already holds a cache / compiled libraries written for ANOTHER option set
    # (one function-changing option toggled): the cache for the current options must not reuse them
    prior = None
    if mode == "codegen":
        # the few codegen cases of the quick tier always start from a folder with libraries of another option set
        prior = draw(st.sampled_from(["detect_aliases", "expand_vectors", "detect_aliases"]))
    elif draw(st.integers(0, 4)) == 0:
        prior = draw(st.sampled_from(["detect_aliases", "expand_vectors", "replace_constant_values", "eliminate_constant_assignments"]))
    return {"model": model, "options": opts, "mode": mode, "third": draw(st.integers(0, 3)) == 0, "gen": feats, "prior": prior}


# --------------------------------------------------------------------------
# oracle
# --------------------------------------------------------------------------
def merged_options(api, opts, mode):
    """The options transfer_model compiles with (mirrors its preamble)."""
    from pymoca.backends.casadi._options import _merge_default_options

    o = dict(opts)
    o[mode] = True
    o = _merge_default_options(o)
    if o["cache"] and not o["codegen"]:
        o["expand_mx"] = True
    return o


def is_mx(x):
    import casadi as ca

    return isinstance(x, ca.MX)


def free_names(x):
    import casadi as ca

    if not isinstance(x, ca.MX):
        return set()
    return {s.name() for s in ca.symvar(x)}


def classify(m):
    """What save_model will have to classify: per (category, variable, attribute)
    'dep' (MX depending on the parameters) / 'indep' (MX, not depending)."""
    import casadi as ca

    pv = ca.veccat(*[v.symbol for v in m.parameters])
    out = {"dep": 0, "indep": 0, "dep_after_array": 0, "dep_on_array": 0, "dep_int": 0, "dep_cats": set()}
    for cat in CATS5:
        after_array = False
        for v in getattr(m, cat):
            for a in canon.ATTRS:
                x = getattr(v, a)
                if not isinstance(x, ca.MX):
                    continue
                if pv.numel() and not x.is_constant() and ca.depends_on(x, pv):
                    out["dep"] += 1
                    out["dep_cats"].add(cat)
                    out["dep_after_array"] += int(after_array)
                    out["dep_on_array"] += int(v.symbol.numel() > 1)
                    out["dep_int"] += int(v.python_type is not float)
                else:
                    out["indep"] += 1
            if v.symbol.numel() > 1:
                after_array = True
    return out


def own_symbols(m):
    syms = [m.time]
    for cat in ALLCATS:
        syms += [v.symbol for v in getattr(m, cat)]
    return syms


def delay_function(m, what):
    """expr_0, duration_0, expr_1, ... of model.delay_arguments as one function
    of the model's own symbols."""
    import casadi as ca

    outs = []
    for da in m.delay_arguments:
        outs += [ca.MX(da.expr), ca.MX(da.duration)]
    try:
        return ca.Function("delay_args", own_symbols(m), outs)
    except RuntimeError as e:
        if "free" in str(e):
            raise Violation("delay_arguments:foreign_symbols",
                            "%s: delay_arguments are not a function of the model's own symbols: %s" % (what, str(e)[-200:]))
        raise


def compare_extra(ctx, ref, got, seed, what):
    import casadi as ca

    # ---- attribute types / constness ---------------------------------------
    for cat in CATS5 + ("der_states",):
        for vr, vg in zip(getattr(ref, cat), getattr(got, cat)):
            name = vr.symbol.name()
            for a in canon.ATTRS:
                xr, xg = getattr(vr, a), getattr(vg, a)
                if not free_names(xr) and free_names(xg):
                    raise Violation(
                        "attr_needs_parameters:%s" % a,
                        "%s: %s.%s of %s is %r (no free symbols) in the fresh compile but depends on %s in the loaded model"
                        % (what, cat, a, name, xr, sorted(free_names(xg))),
                    )
                if is_mx(xr):
                    continue
                if is_mx(xg):
                    if vr.python_type is not float:
                        raise Violation("attr_type:%s" % a, "%s: %s.%s of %s (%s) is %r in the fresh compile, MX in the loaded model"
                                        % (what, cat, a, name, vr.python_type.__name__, xr))
                    continue
                if vr.python_type is not float and type(xr) is not type(xg):
                    raise Violation(
                        "attr_type:%s" % a,
                        "%s: %s.%s of %s variable %s has type %s in the fresh compile, %s in the loaded model"
                        % (what, cat, a, vr.python_type.__name__, name, type(xr).__name__, type(xg).__name__),
                    )
                if a == "fixed":
                    try:
                        br, bg = bool(np.all(np.array(xr, dtype=float) != 0)), bool(np.all(np.array(xg, dtype=float) != 0))
                    except (TypeError, ValueError):
                        br, bg = bool(xr), bool(xg)
                    if br != bg:
                        raise Violation("attr_fixed", "%s: %s.fixed of %s: %r vs %r" % (what, cat, name, xr, xg))
            # shape of what came back: one value, or one per element
            for a in canon.ATTRS:
                xg = getattr(vg, a)
                if is_mx(xg) and xg.numel() not in (1, vg.symbol.numel()):
                    raise Violation("attr_shape:%s" % a, "%s: %s.%s of %s has %d elements, the variable %d"
                                    % (what, cat, a, name, xg.numel(), vg.symbol.numel()))
    # ---- delay arguments -----------------------------------------------------
    if len(got.delay_arguments) != len(ref.delay_arguments) or len(got.delay_arguments) != len(got.delay_states):
        raise Violation("delay_arguments:count", "%s: %d delay states, %d delay arguments (fresh: %d)"
                        % (what, len(got.delay_states), len(got.delay_arguments), len(ref.delay_arguments)))
    if ref.delay_arguments:
        for i, (dr, dg) in enumerate(zip(ref.delay_arguments, got.delay_arguments)):
            fr, fg = free_names(dr.duration), free_names(dg.duration)
            if not fr and fg:
                raise Violation(
                    "delay_duration_needs_symbols",
                    "%s: duration of delay %d is %r (no free symbols) in the fresh compile but depends on %s in the loaded model"
                    % (what, i, dr.duration, sorted(fg)),
                )
            if fr and not fg <= fr:
                ctx.extra["cached_duration_keeps_false_dependency"] += 1
        f_ref = ca.Function("delay_args", own_symbols(ref), [ca.MX(x) for da in ref.delay_arguments for x in da])
        f_got = delay_function(got, what)
        if canon.func_io(f_ref) != canon.func_io(f_got):
            raise Violation("delay_arguments:shape", "%s: %s vs %s" % (what, canon.func_io(f_ref), canon.func_io(f_got)))
        rs = np.random.RandomState((seed + 99) % (2**31))
        for _ in range(2):
            ins, oa = canon.eval_func(f_ref, rs)
            _, ob = canon.eval_func(f_got, rs, ins=ins)
            for k, (x, y) in enumerate(zip(oa, ob)):
                if not canon.same_num(x, y, rtol=1e-8, atol=1e-8):
                    raise Violation(
                        "delay_arguments:%s" % ("duration" if k % 2 else "expression"),
                        "%s: %s of delay %d differs: %s vs %s" % (what, "duration" if k % 2 else "expression", k // 2, x.reshape(-1)[:6], y.reshape(-1)[:6]),
                    )


def same_as_reference(ctx, ref, got, seed, which, what):
    from pymoca.backends.casadi.model import Model

    if not isinstance(got, Model):
        raise Violation("%s:not_a_model" % which, "%s: transfer_model returned %r" % (what, type(got)))
    try:
        canon.compare_models(ref, got, seed, what)
        compare_extra(ctx, ref, got, seed, what)
    except Violation as v:
        raise Violation("%s:%s" % (which, v.kind), v.msg)
    except Discard:
        raise
    except Exception as e:  # noqa: BLE001 - e.g. a function of a half-restored model fails when evaluated
        if pymoca_frame(e) == "?" and not isinstance(e, (RuntimeError, AttributeError, TypeError, KeyError, IndexError)):
            raise
        raise Violation("%s:compare_raises:%s" % (which, type(e).__name__), "%s: %s" % (what, str(e).replace("\n", " ")[:300]))


def transfer(api, folder, opts, mode, which, what):
    o = dict(opts)
    o[mode] = True
    try:
        return api.transfer_model(str(folder), "M", o)
    except Exception as e:  # noqa: BLE001 - inside the domain transfer_model must not raise
        if pymoca_frame(e) == "?":
            raise
        raise Violation(exc_kind(e, which), "%s: transfer_model raised %s: %s" % (what, type(e).__name__, str(e).replace("\n", " ")[:300]))


def check_case(ctx, case):
    import pymoca.backends.casadi.api as api

    env.pin_version()  # after importing api: api.__version__ is an import-time copy
    model, opts, mode = case["model"], dict(case["options"]), case["mode"]
    if mode not in ("cache", "codegen"):
        raise env.HarnessError("mode %r" % (mode,))
    text = D.print_model(model)
    seed = int(case_hash(case), 16) % (2**31 - 101)
    shown = {k: v for k, v in opts.items() if v}
    tail = "\nmode=%s options=%r\n%s" % (mode, shown, text)
    folder = tempfile.mkdtemp(prefix="c19_", dir=str(ctx.scratch))
    ref_folder = tempfile.mkdtemp(prefix="c19ref_", dir=str(ctx.scratch))
    keep = []
    try:
        for d in (folder, ref_folder):
            mo = os.path.join(d, "M.mo")
            with open(mo, "w", encoding="utf-8") as f:
                f.write(text)
            os.utime(mo, (SOURCE_MTIME, SOURCE_MTIME))
        # ---- the fresh compile that defines the domain and the expected model
        try:
            ref = api._compile_model(ref_folder, "M", merged_options(api, opts, mode))
            for fn in canon.FUNCS:
                getattr(ref, fn)
        except Exception as e:  # noqa: BLE001 - a fresh compile that raises is not this property
            if pymoca_frame(e) == "?" and not isinstance(e, RuntimeError):
                raise
            ctx.extra["fresh_compile_raises:%s@%s" % (type(e).__name__, pymoca_frame(e))] += 1
            raise Discard("fresh_compile_raises")
        if os.path.exists(os.path.join(ref_folder, "M.pymoca_cache")):
            raise env.HarnessError("reference folder holds a cache file")
        info = classify(ref)
        prior = case.get("prior")
        if prior:
            popts = dict(opts)
            popts[prior] = not bool(opts.get(prior))
            try:
                api.transfer_model(str(folder), "M", dict(popts, **{mode: True}))
                ctx.extra["prior_option_set_compiled"] += 1
            except Exception as e:  # noqa: BLE001 - the other option set is only a way to leave files behind
                if pymoca_frame(e) == "?":
                    raise
                ctx.extra["prior_option_set_raises"] += 1
        # ---- first call: compile + save
        m1 = transfer(api, folder, opts, mode, "first_transfer", "first call" + tail)
        if isinstance(m1, api.CachedModel):
            raise env.HarnessError("first transfer_model call in an empty folder returned a CachedModel")
        cache_file = os.path.join(folder, "M.pymoca_cache")
        if not os.path.exists(cache_file):
            raise Violation("cache_not_written", "first call left no M.pymoca_cache" + tail)
        if os.path.getmtime(cache_file) <= SOURCE_MTIME:
            raise env.HarnessError("cache file is not newer than the source")
        same_as_reference(ctx, ref, m1, seed, "fresh", "cache-free compile vs transfer_model's fresh model" + tail)
        # ---- second call: must come from the cache
        m2 = transfer(api, folder, opts, mode, "cache_load", "second call" + tail)
        keep.append(m2)
        if not isinstance(m2, api.CachedModel):
            raise Violation("cache_not_used", "second call returned %s although the cache file is newer than the source%s"
                            % (type(m2).__name__, tail))
        same_as_reference(ctx, ref, m2, seed + 1, "cached", "fresh compile vs model loaded from %s" % mode + tail)
        if case.get("third"):
            m3 = transfer(api, folder, opts, mode, "cache_load", "third call" + tail)
            keep.append(m3)
            if not isinstance(m3, api.CachedModel):
                raise Violation("cache_not_used", "third call returned %s%s" % (type(m3).__name__, tail))
            same_as_reference(ctx, ref, m3, seed + 2, "cached", "fresh compile vs model loaded from %s (third call)" % mode + tail)
        # ---- classification for the evidence
        labels = ["mode:" + mode] + ["opt:" + k for k in sorted(shown)] + list(case.get("gen", []))
        if not shown:
            labels.append("opt:none")
        if info["dep"]:
            labels.append("attr:parameter_dependent")
            labels += ["attr:dependent_in_" + c for c in sorted(info["dep_cats"])]
        if info["indep"]:
            labels.append("attr:mx_independent")
        if info["dep_after_array"]:
            labels.append("attr:dependent_after_array_variable")
        if info["dep_on_array"]:
            labels.append("attr:dependent_on_array_variable")
        if info["dep_int"]:
            labels.append("attr:dependent_on_int_or_bool_variable")
        if ref.delay_states:
            labels.append("delay_states:%d" % len(ref.delay_states))
            for da in ref.delay_arguments:
                labels.append("delay_duration:" + ("symbolic" if free_names(da.duration) else "number"))
        if ref.outputs:
            labels.append("outputs")
        if ref.string_parameters:
            labels.append("string_parameters")
        if ref.string_constants:
            labels.append("string_constants")
        if list(ref.alias_relation.canonical_variables) and any(
            len(ref.alias_relation.aliases(c)) > 1 for c in ref.alias_relation.canonical_variables
        ):
            labels.append("alias_relation:nonempty")
        if any(v.aliases for cat in CATS5 for v in getattr(ref, cat)):
            labels.append("variable_aliases")
        if any(v.symbol.numel() > 1 for v in ref.parameters):
            labels.append("array_parameter")
        if not ref.parameters:
            labels.append("no_parameters_left")
        for cat in CATS5:
            if any(v.python_type is int for v in getattr(ref, cat)):
                labels.append("int_in_" + cat)
            if any(v.python_type is bool for v in getattr(ref, cat)):
                labels.append("bool_in_" + cat)
            if any(v.symbol.numel() > 1 for v in getattr(ref, cat)):
                labels.append("array_in_" + cat)
        if case.get("third"):
            labels.append("third_call")
        if case.get("prior"):
            labels.append("folder_used_before_with_other_options")
        nontrivial = bool(info["dep"] or ref.delay_states)
        return dict(nontrivial=nontrivial, labels=sorted(set(labels)),
                    sample={"text": text, "mode": mode, "options": shown})
    finally:
        del keep[:]
        shutil.rmtree(folder, ignore_errors=True)
        shutil.rmtree(ref_folder, ignore_errors=True)


# --------------------------------------------------------------------------
# search
# --------------------------------------------------------------------------
def drive_after(ctx, strategy, n, skip):
    """vf.core.drive, but the first `skip` draws are not evaluated: Hypothesis always starts with the
    same minimal example (here: the smallest model with no option set), which would otherwise be the
    only codegen case of every shard and 1/15 of all cache cases."""
    import hypothesis
    from hypothesis import given

    from vf.core import hsettings, run_one

    if n <= 0:
        return
    count = [0]

    @hypothesis.seed(ctx.hseed)
    @hsettings(n + skip)
    @given(strategy)
    def run(case):
        count[0] += 1
        if count[0] <= skip or ctx.over_budget():
            return
        run_one(ctx, check_case, case)

    run()


def shard(ctx):
    import pymoca.backends.casadi.api  # noqa: F401 - pin_version must reach api.__version__

    env.pin_version()
    # codegen first (gcc: seconds per case), so that a slow machine cannot push it past the soft budget
    if ctx.tier == "quick":
        n_codegen = 1 if ctx.shard < 6 else 0
    else:
        n_codegen = ctx.share(0, 300)
    drive_after(ctx, case_strategy("codegen"), n_codegen, skip=2)
    drive_after(ctx, case_strategy("cache"), ctx.share(240, 6000), skip=0 if ctx.shard == 0 else 1)


def replay(ctx, case):
    check_case(ctx, case)


MANIFEST = dict(
    text="Generated flat models (every variable category with scalars and arrays, Real/Integer/Boolean, "
    "literal / affine / non-affine parameter-dependent attributes also on variables that follow an array "
    "in their category, alias equations, delays with parameter, constant and literal durations, String "
    "parameters, outputs) are compiled through transfer_model with cache=True (and, rarely, codegen=True) "
    "under drawn simplification options; the second and third call must return a CachedModel that equals "
    "a cache-free compile of the same text: structure, python types, aliases, outputs, delay states and "
    "their arguments, alias relation, attribute values at drawn parameter values (and no parameter "
    "dependence where the fresh compile has a plain number), and the four functions at drawn points.  "
    "Sampled, not exhaustive.",
    note="Trusts api._compile_model in a cache-less folder as the meaning of 'fresh compile', "
    "vf.canon.compare_models / numpy / CasADi evaluation as the meaning of 'equal', os.utime for the "
    "source mtime.",
    technique="differential property-based testing (fresh compile vs cache round trip) with Hypothesis",
)
