"""C10 - The generated CasADi model classifies every variable exactly once.

Generated models mix every prefix combination the grammar allows with the four
elementary types, instantiate a small class `Sub` (whose input/output prefixes
must not count at top level) and differentiate variables directly, inside
expressions, through der(<expression>), only in initial equations, inside
Sub's own equations and from the top level through a dotted name.  The expected
partition, the derivative pairing, the order inside a category and the output
list are computed from the abstract model alone and compared with the lists of
the model returned by pymoca.backends.casadi.generator.generate."""
from hypothesis import strategies as st

from vf.core import Violation, drive, guarded
from vf.gen import dae as D
from vf.gen import expr as X

ID = "C10"
LEVEL = "exploration"
RULE = (
    "model M with 4-10 elementary variables, each with a type from {Real, Integer, Boolean, String} and "
    "a prefix combination from {discrete, parameter, constant, none} x {input, output, none} (String only "
    "as parameter/constant), literal values on constants/parameters, some declarations joined in one "
    "component clause; 0-2 instances of a class Sub (2-5 variables with the same prefix combinations, own "
    "equations) declared between them; 1-5 equations with der: der(x) = .., der(x) + der(y) = 0, "
    "z = k*der(w) + v, z = sin(der(x)), z = if time > 1 then der(x) else 0, der(x*y) = 1 / der(x + 2*y) / "
    "der(sin(x)) / der(-x), der inside an if-equation, der(a.x) written at top level, der inside Sub's "
    "equations, 0-2 initial equations with der (preferring variables not differentiated elsewhere), "
    "filler equations referencing variables outside der; with low probability der is also applied to a "
    "Real parameter/constant/top-level input (directly or as der(x*p)).  non-trivial = some variable "
    "carries >= 2 prefixes, or some state is found only through an expression / an initial equation / a "
    "sub-component; distinct = distinct abstract model."
)
ASSUMPTIONS = [
    "input/output written inside Sub do not count at top level: the flat variable a.u is classified by its "
    "remaining prefixes and by differentiation (the statement says 'top-level input')",
    "order inside a category is asserted only between variables declared in the same class instance (top "
    "level, or one instance of Sub); the interleaving of a sub-component's variables with top-level ones "
    "is not fixed by the statement",
    "der(<expression>) differentiates every variable occurring in the expression",
    "a differentiated Real parameter / constant / top-level input stays parameter / constant / input (this "
    "is what 'by this precedence' says); der is never applied to discrete, Integer, Boolean or String variables",
    "outputs is compared as a set plus absence of duplicates (the statement says 'names exactly')",
    "the Python type of each Variable is C13's statement and is not asserted here",
]
SOFT_BUDGET_S = {"quick": 120, "thorough": 3000}

CATS = ["states", "alg_states", "inputs", "constants", "parameters", "string_constants", "string_parameters"]
ALIASES_ON = True  # some variables are declared through "type RealA = Real(..)" aliases
DER_ON_PREFIXED = True  # also differentiate Real parameters/constants/top-level inputs (precedence over 'state')


# --------------------------------------------------------------------------
# printer
# --------------------------------------------------------------------------
def prefix_words(v):
    return [w for w in (v["var"], v["io"]) if w]


def value_text(v):
    val = v.get("value")
    if val is None:
        return ""
    return " = " + D.pe(val)


def print_decls(decls):
    out = ""
    i = 0
    while i < len(decls):
        d = decls[i]
        if d["k"] == "comp":
            out += "  Sub %s;\n" % d["name"]
            i += 1
            continue
        parts = [d["name"] + d.get("dims", "") + value_text(d)]
        j = i + 1
        while j < len(decls) and decls[j]["k"] == "var" and decls[j].get("join") and all(
            decls[j].get(f) == d.get(f) for f in ("type", "var", "io", "alias")
        ):
            parts.append(decls[j]["name"] + decls[j].get("dims", "") + value_text(decls[j]))
            j += 1
        out += "  " + " ".join(prefix_words(d) + [ALIAS[d["type"]] if d.get("alias") else d["type"]]) + " " + ", ".join(parts) + ";\n"
        i = j
    return out


def print_class(name, decls, eqs, ieqs):
    out = "model %s\n" % name + print_decls(decls)
    if ieqs:
        out += "initial equation\n" + "".join(D.print_eq(q) for q in ieqs)
    if eqs:
        out += "equation\n" + "".join(D.print_eq(q) for q in eqs)
    return out + "end %s;\n" % name


ALIAS = {"Real": "RealA", "Integer": "IntA", "Boolean": "BoolA"}


def print_case(case):
    out = ""
    used = sorted({d["type"] for ds in [case["decls"]] + ([case["sub"]["decls"]] if case.get("sub") else [])
                   for d in ds if d["k"] == "var" and d.get("alias")})
    for t in used:
        # a type alias of a builtin (with a modification of its own when it is Real)
        out += "type %s = %s%s;\n" % (ALIAS[t], t, "(nominal = 2)" if t == "Real" else "")
    if case.get("sub"):
        s = case["sub"]
        out += print_class("Sub", s["decls"], s["eqs"], s["ieqs"])
    return out + print_class("M", case["decls"], case["eqs"], case["ieqs"])


# --------------------------------------------------------------------------
# oracle (abstract model only)
# --------------------------------------------------------------------------
def flat_vars(case):
    """[(flat name, decl, group)] in declaration order; group '' = top level,
    otherwise the instance name.  Sub-component variables lose input/output."""
    out = []
    for d in case["decls"]:
        if d["k"] == "var":
            out.append((d["name"], d, ""))
        else:
            for sd in case["sub"]["decls"]:
                out.append((d["name"] + "." + sd["name"], dict(sd, io=""), d["name"]))
    return out


def der_occurrences(case):
    """[(flat variable name, set of context tags)] for every variable under a der()."""
    occ = []

    def expr(e, where, side, prefix):
        # walk keeping track of whether a der node is a whole equation side
        def rec(n, top):
            if not isinstance(n, list):
                return
            if n[0] == "der":
                operand = n[1]
                shape = ("direct" if top else "nested") if operand[0] == "var" else "of_expr"
                for m in X.walk(operand):
                    if m[0] == "var":
                        tags = {where, shape}
                        if not prefix and "." in m[1]:
                            tags.add("top_on_sub")
                        occ.append((prefix + m[1], tags))
                return
            for c in n[1:]:
                rec(c, False)

        rec(e, True)

    def eq(q, where, prefix, in_if=False):
        if q[0] == "eq":
            w = where + ("_if" if in_if else "")
            expr(q[1], w, "l", prefix)
            expr(q[2], w, "r", prefix)
        elif q[0] == "if":
            for c, body in q[1]:
                expr(c, where, "c", prefix)
                for b in body:
                    eq(b, where, prefix, True)
            for b in q[2]:
                eq(b, where, prefix, True)
        else:
            raise ValueError(q)

    for q in case["eqs"]:
        eq(q, "top_eq", "")
    for q in case["ieqs"]:
        eq(q, "top_ieq", "")
    if case.get("sub"):
        for d in case["decls"]:
            if d["k"] == "comp":
                for q in case["sub"]["eqs"]:
                    eq(q, "sub_eq", d["name"] + ".")
                for q in case["sub"]["ieqs"]:
                    eq(q, "sub_ieq", d["name"] + ".")
    return occ


def expected(case):
    fv = flat_vars(case)
    occ = der_occurrences(case)
    differentiated = {n for n, _ in occ}
    cat = {}
    for name, d, _g in fv:
        if d["var"] == "constant":
            c = "string_constants" if d["type"] == "String" else "constants"
        elif d["var"] == "parameter":
            c = "string_parameters" if d["type"] == "String" else "parameters"
        elif d["io"] == "input":
            c = "inputs"
        elif name in differentiated:
            c = "states"
        else:
            c = "alg_states"
        cat[name] = c
    outputs = [n for n, d, g in fv if g == "" and d["io"] == "output" and cat[n] in ("states", "alg_states")]
    return fv, occ, cat, outputs


def var_name(v, cat):
    """Name of an entry of one of the model's lists (Variable: MX symbol name, StringVariable: .name)."""
    sym = getattr(v, "symbol", None)
    if sym is not None:
        if cat.startswith("string_"):
            raise Violation("entry_kind:%s" % cat, "%s holds a numeric Variable %r" % (cat, sym.name()))
        return sym.name()
    if not cat.startswith("string_"):
        raise Violation("entry_kind:%s" % cat, "%s holds a string variable %r" % (cat, getattr(v, "name", v)))
    return v.name


def prefix_combo(d):
    return " ".join(prefix_words(d)) or "none"


def check_case(ctx, case):
    from pymoca import parser
    from pymoca.backends.casadi import generator

    text = print_case(case)
    tree = guarded(parser.parse, text, bypass_cache=True, where="parse")
    if tree is None:
        raise Violation("valid_text_rejected", "parse returned None:\n" + text)
    try:
        model = guarded(generator.generate, tree, "M", {}, where="generate")
    except Violation as v:
        v.msg += "\n" + text
        raise
    fv, occ, cat, exp_outputs = expected(case)
    decl = {n: d for n, d, _ in fv}
    group = {n: g for n, _, g in fv}

    try:
        got = {c: [var_name(v, c) for v in getattr(model, c)] for c in CATS}
        der_names = [var_name(v, "der_states") for v in model.der_states]
    except Violation as v:
        v.msg += "\n" + text
        raise
    listing = "\n".join("%s: %r" % (c, got[c]) for c in CATS) + "\nder_states: %r\noutputs: %r\n%s" % (
        der_names, list(model.outputs), text)

    # -- exactly one category, the expected one --------------------------
    where = {}
    for c in CATS:
        for n in got[c]:
            where.setdefault(n, []).append(c)
    for n, cs in where.items():
        if len(cs) > 1:
            raise Violation("listed_twice:" + "+".join(sorted(set(cs))), "%s appears in %r\n%s" % (n, cs, listing))
    for n, _d, _g in fv:
        d = decl[n]
        desc = "%s %s%s" % (prefix_combo(d), d["type"], " (in Sub)" if group[n] else "")
        if n not in where:
            if d.get("dims") == "[0]":
                # an array without elements has no elementary variable: it may be left out altogether
                continue
            raise Violation("missing:%s" % cat[n], "%s [%s] is in no category, expected %s\n%s" % (n, desc, cat[n], listing))
        if where[n][0] != cat[n]:
            raise Violation(
                "category:%s_listed_as_%s" % (cat[n], where[n][0]),
                "%s [%s] is in %s, expected %s\n%s" % (n, desc, where[n][0], cat[n], listing),
            )
    extra = sorted(set(where) - set(decl))
    if extra:
        raise Violation("extra_variable", "names %r are not flat variables of the model\n%s" % (extra, listing))

    # -- one derivative per state ----------------------------------------
    if len(der_names) != len(got["states"]):
        raise Violation("der_states_length", "%d der_states for %d states\n%s" % (len(der_names), len(got["states"]), listing))
    for s, dn in zip(got["states"], der_names):
        if dn != "der(" + s + ")":
            raise Violation("der_states_pairing", "state %s is paired with %s\n%s" % (s, dn, listing))

    # -- declaration order inside each category, per declaring class instance
    for c in CATS:
        for g in sorted(set(group.values())):
            exp_seq = [n for n, _d, gg in fv if gg == g and cat[n] == c and n in where]
            got_seq = [n for n in got[c] if group.get(n) == g]
            if exp_seq != got_seq:
                raise Violation(
                    "declaration_order:%s:%s" % (c, "sub" if g else "top"),
                    "%s order %r, declared %r\n%s" % (c, got_seq, exp_seq, listing),
                )

    # -- outputs -----------------------------------------------------------
    exp_outputs = [n for n in exp_outputs if n in where]  # (zero-size arrays that were left out)
    outs = list(model.outputs)
    if len(outs) != len(set(outs)):
        raise Violation("outputs_duplicate", "outputs %r\n%s" % (outs, listing))
    if set(outs) != set(exp_outputs):
        more, less = sorted(set(outs) - set(exp_outputs)), sorted(set(exp_outputs) - set(outs))
        kind = "extra" if more else "missing"
        src = more[0] if more else less[0]
        raise Violation(
            "outputs_%s:%s" % (kind, cat.get(src, "?") + ("_sub" if group.get(src) else "")),
            "outputs %r expected %r\n%s" % (outs, exp_outputs, listing),
        )

    # -- labels --------------------------------------------------------------
    labels = set()
    multi_prefix = False
    for n, d, g in fv:
        words = prefix_words(d)
        src = next(x for x in (case["sub"]["decls"] if g else case["decls"]) if x["k"] == "var" and x["name"] == n.split(".")[-1])
        written = prefix_words(src)
        if g == "":
            labels.add("prefix:" + prefix_combo(d))
            labels.add("type:" + d["type"])
            if d.get("alias"):
                labels.add("alias_typed:" + (prefix_combo(d)))
            if len(words) >= 2:
                multi_prefix = True
            if d["type"] == "String":
                labels.add("string_" + d["var"])
        else:
            labels.add("subprefix:" + (" ".join(written) or "none"))
            if src.get("alias") and src["io"]:
                labels.add("sub_alias_typed_%s" % src["io"])
            if len(written) >= 2:
                multi_prefix = True
            if src["io"]:
                labels.add("sub_%s_stripped" % src["io"])
                if cat[n] == "states":
                    labels.add("sub_%s_is_state" % src["io"])
        labels.add("cat:" + cat[n])
    tags_of = {}
    for n, tags in occ:
        tags_of.setdefault(n, []).append(tags)
    special_state = False
    for n, tl in tags_of.items():
        for t in tl:
            for x in t:
                labels.add("der:" + x)
        if cat[n] != "states":
            labels.add("der_on_" + cat[n])
            continue
        plain = any(("top_eq" in t or "top_eq_if" in t) and "direct" in t and "top_on_sub" not in t for t in tl)
        if not plain:
            special_state = True
            if all(("top_ieq" in t or "sub_ieq" in t) for t in tl):
                labels.add("state_only_initial")
            if all(("nested" in t or "of_expr" in t) for t in tl):
                labels.add("state_only_in_expression")
            if group[n]:
                labels.add("state_in_sub")
    ninst = sum(1 for d in case["decls"] if d["k"] == "comp")
    labels.add("instances:%d" % ninst)
    if any(ln.count(",") for ln in print_decls(case["decls"]).splitlines() if '"' not in ln):
        labels.add("joined_declaration")
    for n, d, g in fv:
        if d.get("dims"):
            labels.add("array%s:%s" % (d["dims"], prefix_combo(d)))
    if exp_outputs:
        labels.add("has_outputs")
    if any(decl[n]["io"] == "output" and cat[n] == "states" for n in exp_outputs):
        labels.add("output_state")
    if multi_prefix:
        labels.add("multi_prefix")
    if special_state:
        labels.add("special_state")
    return dict(nontrivial=multi_prefix or special_state, labels=sorted(labels), sample={"text": text})


# --------------------------------------------------------------------------
# generator (Hypothesis draws one seed; the model is a pure function of it -
# drawing every choice through Hypothesis cost ~150 ms per model)
# --------------------------------------------------------------------------
REAL_VALUES = [["real", "1.5"], ["real", "2.0"], ["real", "0.25"], ["int", 3]]
STRING_VALUES = ["abc", "x y", "", "M.v0"]


class Rng:
    def __init__(self, seed):
        import random

        self.r = random.Random(seed)

    def choice(self, xs):
        return xs[self.r.randrange(len(xs))]

    def int(self, a, b):
        return self.r.randint(a, b)

    def bool(self):
        return self.r.random() < 0.5

    def perm(self, xs):
        xs = list(xs)
        self.r.shuffle(xs)
        return xs


def var_spec(r, derivable=False, sub=False):
    if derivable:
        io = r.choice(["", "", "output", "input"] if sub else ["", "", "output"])
        return {"type": "Real", "var": "", "io": io}
    t = r.choice(["Real"] * 5 + ["Integer"] * 2 + ["Boolean"] * 2 + ["String"] * 2)
    if t == "String":
        return {"type": t, "var": r.choice(["parameter", "constant"]), "io": r.choice(["", "", "", "input", "output"])}
    return {"type": t, "var": r.choice(["", "", "discrete", "parameter", "parameter", "constant"]),
            "io": r.choice(["", "", "input", "output", "output"])}


def with_value(r, spec):
    v = dict(spec)
    val = None
    if v["var"] == "constant" or (v["var"] == "parameter" and (v["type"] == "String" or r.int(0, 5) > 0)):
        if v["type"] == "Real":
            val = r.choice(REAL_VALUES)
        elif v["type"] == "Integer":
            val = ["int", r.int(1, 4)]
        elif v["type"] == "Boolean":
            val = ["bool", r.bool()]
        else:
            val = ["str", r.choice(STRING_VALUES)]
    v["value"] = val
    return v


def decl_list(r, n, n_derivable, prefix, sub=False):
    specs = [var_spec(r, derivable=True, sub=sub) for _ in range(n_derivable)]
    keep = {id(s) for s in specs}  # the guaranteed der candidates keep their prefixes
    specs += [var_spec(r, sub=sub) for _ in range(n - n_derivable)]
    specs = r.perm(specs)
    if r.int(0, 2) == 0:
        # make joined declarations likely: repeat the prefix combination of a neighbour
        for i in range(1, len(specs)):
            if id(specs[i]) not in keep and r.int(0, 2) == 0 and specs[i]["type"] == specs[i - 1]["type"] and specs[i]["var"] == specs[i - 1]["var"]:
                specs[i]["io"] = specs[i - 1]["io"]
    out = []
    for i, s in enumerate(specs):
        v = with_value(r, s)
        v.update(k="var", name="%s%d" % (prefix, i), join=r.int(0, 2) > 0)
        if ALIASES_ON and v["type"] in ALIAS and r.int(0, 3) == 0:
            v["alias"] = True  # declared through a type alias of the builtin
        out.append(v)
    return out


def V(n):
    return ["var", n]


def DER(e):
    return ["der", e]


LITS = [["int", 0], ["int", 1], ["real", "2.5"]]


def der_equations(r, cands, prefixed, lhs_pool, refs, n, allow_if_eq, used, top_inputs=None):
    """n equations containing der; `used` collects the differentiated candidates."""
    eqs = []

    def cand():
        c = r.choice(cands)
        used.add(c)
        return c

    def ref():
        return V(r.choice(refs)) if refs and r.bool() else r.choice(LITS)

    def lhs():
        return V(r.choice(lhs_pool or cands))

    forms = ["plain", "plain", "sum", "rhs", "of_expr", "of_expr", "call", "ifexpr"]
    if allow_if_eq:
        forms.append("ifeq")
    if prefixed and DER_ON_PREFIXED:
        forms += ["prefixed"] * (3 if top_inputs else 1)
    for _ in range(n):
        f = r.choice(forms)
        if f == "plain":
            q = ["eq", DER(V(cand())), ref()]
            if r.int(0, 3) == 0:
                q = ["eq", q[2], q[1]]
        elif f == "sum":
            q = ["eq", ["bin", r.choice(["+", "-"]), DER(V(cand())), DER(V(cand()))], r.choice(LITS)]
        elif f == "rhs":
            e = ["bin", "*", ["int", 2], DER(V(cand()))]
            if r.bool():
                e = ["bin", "+", e, ref()]
            q = ["eq", lhs(), e]
        elif f == "of_expr":
            k = r.choice(["mul", "add", "sub2", "sin", "neg", "three"])
            a, b = V(cand()), V(cand())
            if k == "mul":
                e = ["bin", "*", a, b]
            elif k == "add":
                e = ["bin", "+", a, b]
            elif k == "sub2":
                e = ["bin", "-", a, ["bin", "*", ["int", 2], b]]
            elif k == "sin":
                e = ["call", "sin", a]
            elif k == "neg":
                e = ["neg", a]
            else:
                e = ["bin", "+", ["bin", "*", a, b], V(cand())]
            q = ["eq", DER(e), r.choice(LITS)]
        elif f == "call":
            q = ["eq", lhs(), ["call", r.choice(["sin", "cos"]), DER(V(cand()))]]
        elif f == "ifexpr":
            q = ["eq", lhs(), ["if", ["rel", ">", ["time"], ["int", 1]], DER(V(cand())), r.choice(LITS)]]
        elif f == "ifeq":
            x = V(cand())
            other = V(cand()) if r.bool() else x
            q = ["if", [[["rel", ">", ["time"], ["int", 1]], [["eq", DER(x), r.choice(LITS)]]]], [["eq", DER(other), ref()]]]
        else:
            inputs = [x for x in prefixed if x in (top_inputs or ())]
            p = V(r.choice(inputs if inputs and r.bool() else prefixed))
            if r.bool():
                q = ["eq", DER(["bin", "*", V(cand()), p]), r.choice(LITS)]
            else:
                q = ["eq", lhs(), ["bin", "+", DER(p), ref()]]
        eqs.append(q)
    return eqs


def initial_equations(r, cands, n, used):
    eqs = []
    for _ in range(n):
        fresh = [c for c in cands if c not in used]
        pool = fresh if fresh and r.int(0, 3) > 0 else cands
        a = r.choice(pool)
        used.add(a)
        k = r.choice(["plain", "plain", "sum", "of_expr", "nested"])
        if k == "plain":
            q = ["eq", DER(V(a)), ["int", 0]]
        elif k == "sum":
            b = r.choice(pool)
            used.add(b)
            q = ["eq", ["bin", "+", DER(V(a)), DER(V(b))], ["int", 0]]
        elif k == "of_expr":
            b = r.choice(pool)
            used.add(b)
            q = ["eq", DER(["bin", "*", V(a), V(b)]), ["int", 1]]
        else:
            q = ["eq", ["bin", "*", ["int", 3], DER(V(a))], ["real", "1.5"]]
        eqs.append(q)
    return eqs


def fillers(r, decls, n):
    """Harmless equations that mention variables outside any der()."""
    out = []
    plain = [d for d in decls if d["k"] == "var" and d["var"] in ("", "discrete") and d["io"] != "input" and not d.get("dims")]
    nums = [d["name"] for d in decls if d["k"] == "var" and d["type"] in ("Real", "Integer") and not d.get("dims")]
    for _ in range(n):
        if not plain:
            break
        d = r.choice(plain)
        if d["type"] == "Boolean":
            rhs = ["bool", r.bool()]
        elif d["type"] == "Integer":
            rhs = ["int", r.int(0, 3)]
        else:
            rhs = r.choice([["int", 1], ["real", "0.5"]])
            if nums and r.bool():
                rhs = ["bin", "+", V(r.choice(nums)), rhs]
        out.append(["eq", V(d["name"]), rhs])
    return out


def real_names(decls, pred):
    return [d["name"] for d in decls if d["k"] == "var" and d["type"] == "Real" and not d.get("dims") and pred(d)]


def build_case(seed):
    r = Rng(seed)
    n = r.int(4, 10)
    decls = decl_list(r, n, 2, "v")
    ninst = r.choice([0, 1, 1, 1, 2, 2])
    sub = None
    sub_cands = []
    if ninst:
        sn = r.int(2, 5)
        sdecls = decl_list(r, sn, r.int(1, 2), "w", sub=True)
        scands = real_names(sdecls, lambda d: d["var"] == "")
        sprefixed = real_names(sdecls, lambda d: d["var"] in ("parameter", "constant"))
        srefs = [d["name"] for d in sdecls if d["type"] in ("Real", "Integer")]
        sused = set()
        seqs = der_equations(r, scands, sprefixed, scands, srefs, r.int(0, 2), False, sused)
        sieqs = initial_equations(r, scands, r.choice([0, 0, 1]), sused)
        seqs = r.perm(seqs + fillers(r, sdecls, r.int(0, 2)))
        sub = {"decls": sdecls, "eqs": seqs, "ieqs": sieqs}
        for i in range(ninst):
            decls.insert(r.int(0, len(decls)), {"k": "comp", "name": "ab"[i]})
            sub_cands += ["ab"[i] + "." + c for c in scands]
    # array variables, some without elements, that no equation mentions
    for i in range(r.choice([0, 0, 1, 1, 2])):
        decls.insert(r.int(0, len(decls)), {
            "k": "var", "name": "z%d" % i, "type": r.choice(["Real", "Real", "Integer", "Boolean"]),
            "var": r.choice(["", "", "discrete", "parameter"]), "io": r.choice(["", "input", "output", "output"]),
            "value": None, "join": r.int(0, 2) > 0, "dims": r.choice(["[0]", "[0]", "[2]"]),
        })
    top_cands = real_names(decls, lambda d: d["var"] == "" and d["io"] != "input" and not d.get("dims"))
    cands = top_cands + sub_cands
    prefixed = real_names(decls, lambda d: d["var"] in ("parameter", "constant") or (d["var"] == "" and d["io"] == "input"))
    refs = [d["name"] for d in decls if d["k"] == "var" and d["type"] in ("Real", "Integer") and not d.get("dims")] + sub_cands
    used = set()
    # keep some candidates out of the ordinary equations so that states found only in initial equations occur
    eq_cands = cands if r.bool() else (r.perm(cands)[: max(1, len(cands) - 1)])
    eq_cands = [c for c in cands if c in eq_cands]
    top_inputs = real_names(decls, lambda d: d["var"] == "" and d["io"] == "input")
    eqs = der_equations(r, eq_cands, prefixed, top_cands, refs, r.int(1, 5), True, used, top_inputs)
    ieqs = initial_equations(r, cands, r.choice([0, 1, 1, 2]), used)
    eqs = r.perm(eqs + fillers(r, decls, r.int(0, 3)))
    return {"decls": decls, "sub": sub, "eqs": eqs, "ieqs": ieqs}


def case_strategy(ctx=None):
    # Hypothesis favours small integers, which every shard would repeat: mix the shard seed in
    salt = ctx.hseed if ctx is not None else 0
    return st.integers(0, 2**62).map(lambda s: build_case("%d:%d" % (salt, s)))


def shard(ctx):
    drive(ctx, case_strategy(ctx), check_case, ctx.share(2000, 50000))


def replay(ctx, case):
    check_case(ctx, case)


MANIFEST = dict(
    text="Generated models covering every prefix combination of the grammar on the four elementary types, "
    "instances of a sub-class with its own input/output prefixes, and der() in every position the "
    "quantifier names are compiled by the CasADi backend; the seven variable lists must form exactly the "
    "partition computed from the abstract model by the stated precedence (nothing missing, nothing extra, "
    "nothing twice), der_states must pair with states one to one, each category must keep declaration "
    "order, and outputs must name exactly the output-prefixed states/algebraic variables of the top level.  "
    "Sampling over models.",
    note="Trusts the 60-line partition oracle and the printer; interleaving of sub-component and top-level "
    "variables inside a category is not asserted.",
    technique="property-based testing against a reference classification computed from the abstract model",
)
