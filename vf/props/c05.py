"""C05 - Flattening never changes what later flattening produces.

One parsed tree is shared by a whole history of requests
`flatten(C)` / `casadi.generate(C)` / `sympy.generate(C)` / `xml.generate(C)`.
After every step the outcome on the shared tree must equal the outcome of the
same request on a *fresh* parse of the same text (canonical flat tree /
canonical CasADi model / generated text, or the exception class).  Every
history is then extended by one flatten request per class of the text, so that
anything an earlier request left behind in any class is observed through the
results the statement talks about.  (A purely structural change of the shared
tree that no request can observe - a constant pulled in from another class is
renamed in place and reset by every later flatten - is counted, not failed.)

Three parts:
* generated histories over generated class libraries (vf.gen.lib + class-level
  modifications added here), biased to "used-by" orders;
* a deterministic sweep over every class of every repo test model;
* the CLI form: `tools.compiler.main` with several -m against one call per -m.
"""
import io
import logging
import shutil
import sys
from pathlib import Path

from hypothesis import strategies as st

from vf import env
from vf.canon import model_struct, tree_canon
from vf.core import Discard, Violation, as_violation, drive, pymoca_frame, run_one
from vf.gen import lib as L

ID = "C05"
LEVEL = "exploration"
RULE = (
    "generated histories: library of <= 7 classes (models, packages, nested models, type aliases, "
    "single/multiple extends, component hierarchies, declaration modifications plus class-level "
    "modifications on components and extends clauses, some referring to parameters of the modifying "
    "class), 2-8 requests [kind, class] with kind in flatten/casadi/sympy/xml and classes drawn with "
    "repetition; two thirds of the histories are seeded with a related pair (component class / base "
    "class and its user) in either order.  5 in 6 cases run the history on one shared tree against "
    "fresh parses; 1 in 6 runs the compiler CLI with all -m at once against one call per -m (flatten "
    "only or -t sympy).  test-model sweep: every class C of every test/models/*.mo that parses, "
    "history [flatten C, flatten C, flatten D, flatten C] (D = another class of the file; thorough: "
    "every D and all four request kinds).  Every history is followed by closing requests: flatten "
    "of every class of the text on the shared tree.  non-trivial = the history repeats a class or contains two "
    "classes related by component/extends/nesting; distinct = distinct abstract case."
)
ASSUMPTIONS = [
    "outcome of a request = canonical JSON of the flat tree (flatten) / generated text (sympy, xml) / "
    "model structure + string forms of equations, initial equations and every variable attribute "
    "(casadi: MX string forms are deterministic for identical construction) - or the exception class "
    "name; both sides raising the same class is agreement, so the check does not depend on which "
    "constructs a backend supports",
    "the reference outcome of a request is a pure function of (text, kind, class): it is computed on a "
    "fresh cache-bypassing parse once per case/file and reused for repeated requests",
    "the statement is about results: a structural difference between the shared tree and a fresh parse "
    "(Node.to_json) after a history whose closing requests all agree is counted in "
    "coverage.counters, not reported as a violation",
    "CLI: statuses are compared (combined call == sum of single-model calls, repetitions counted) and, "
    "for -t sympy, the written <Model>.py of the combined call equals that of the single call; the "
    "meaning of a status is C26's subject",
]
SHARDS = {"quick": 16, "thorough": 16}

KINDS = ("flatten", "casadi", "sympy", "xml")


# --------------------------------------------------------------------------
# running one request
# --------------------------------------------------------------------------
class quiet:
    """ANTLR's error listener and logging's last-resort handler write to stderr."""

    def __enter__(self):
        self.old = (sys.stderr, sys.stdout)
        sys.stderr, sys.stdout = io.StringIO(), io.StringIO()

    def __exit__(self, *a):
        sys.stderr, sys.stdout = self.old
        return False


def parse_fresh(text):
    from pymoca import parser

    with quiet():
        try:
            return parser.parse(text, bypass_cache=True)
        except Exception as e:  # noqa: BLE001
            if pymoca_frame(e) == "?":
                raise
            return None


def _attr(x):
    return str(x)


def casadi_canon(m):
    out = model_struct(m)
    out["equations"] = [str(e) for e in m.equations]
    out["initial_equations"] = [str(e) for e in m.initial_equations]
    out["delay_arguments"] = [str(d) for d in m.delay_arguments]
    attrs = {}
    for cat in ("states", "der_states", "alg_states", "inputs", "parameters", "constants"):
        for v in getattr(m, cat):
            attrs["%s:%s" % (cat, v.symbol.name())] = [
                _attr(getattr(v, a)) for a in ("value", "start", "min", "max", "nominal", "fixed")
            ]
    out["attributes"] = attrs
    return out


def request(kind, t, path):
    """Outcome of one request on tree t: ("ok", canonical value) or ("exc", class name)."""
    from pymoca import ast, tree

    try:
        with quiet():
            if kind == "flatten":
                return ("ok", tree_canon(tree.flatten(t, ast.ComponentRef.from_string(path))))
            if kind == "casadi":
                from pymoca.backends.casadi import generator as cg

                return ("ok", casadi_canon(cg.generate(t, path, {})))
            if kind == "sympy":
                from pymoca.backends.sympy import generator as sg

                return ("ok", sg.generate(t, path, {}))
            if kind == "xml":
                from pymoca.backends.xml import generator as xg

                return ("ok", xg.generate(t, path))
    except Exception as e:  # noqa: BLE001 - an exception class is an outcome here
        if pymoca_frame(e) == "?":
            raise
        return ("exc", type(e).__name__)
    raise ValueError(kind)


def _diff(a, b):
    """Short description of where two outcomes differ."""
    if a[0] != b[0]:
        return "shared tree: %s %s / fresh parse: %s %s" % (a[0], str(a[1])[:120], b[0], str(b[1])[:120])
    if a[0] == "exc":
        return "shared tree raises %s, fresh parse raises %s" % (a[1], b[1])
    x, y = a[1], b[1]
    if isinstance(x, dict):
        keys = [k for k in x if x[k] != y.get(k)]
        return "model differs in %s: %s vs %s" % (keys, str([x[k] for k in keys])[:200], str([y.get(k) for k in keys])[:200])
    i = next((i for i, (p, q) in enumerate(zip(x, y)) if p != q), min(len(x), len(y)))
    return "differs at offset %d: ...%s... vs ...%s..." % (i, x[max(0, i - 60):i + 80], y[max(0, i - 60):i + 80])


def class_paths(node, prefix=""):
    out = []
    for name, c in node.classes.items():
        out.append(prefix + name)
        out += class_paths(c, prefix + name + ".")
    return out


class Reference:
    """Fresh-parse outcomes for one text (one fresh parse per distinct request)."""

    def __init__(self, text):
        self.text = text
        self.memo = {}
        t = parse_fresh(text)
        self.parses = t is not None
        self.canon = tree_canon(t) if t is not None else None
        self.paths = class_paths(t) if t is not None else []

    def outcome(self, kind, path):
        key = (kind, path)
        if key not in self.memo:
            self.memo[key] = request(kind, parse_fresh(self.text), path)
        return self.memo[key]


def run_history(ref, steps, what, closing=()):
    """The oracle: steps on one shared tree against the reference; then the
    closing requests (flatten of every class of the text: the history extended
    by one request per class, so that a change to any class left behind by the
    drawn steps is observed through the result the statement talks about).
    -> (outcome tag per drawn step, shared tree structurally changed?)"""
    shared = parse_fresh(ref.text)
    if shared is None or tree_canon(shared) != ref.canon:
        raise env.HarnessError("two parses of the same text differ (%s)" % what)
    tags = []
    full = [list(s) for s in steps] + [["flatten", p] for p in closing]
    for i, (kind, path) in enumerate(full):
        got = request(kind, shared, path)
        exp = ref.outcome(kind, path)
        first = not any(p == path for _k, p in full[:i])
        pos = "closing" if i >= len(steps) else ("first_request" if i == 0 else ("first_of_class" if first else "repeated_class"))
        if got != exp:
            k = "outcome_differs" if got[0] == exp[0] == "ok" else (
                "raises_only_on_shared_tree" if got[0] == "exc" and exp[0] == "ok" else (
                    "raises_only_on_fresh_parse" if exp[0] == "exc" and got[0] == "ok" else "exception_class_differs"))
            raise Violation(
                "%s:%s:%s" % (k, kind, pos),
                "%s: request %d %s(%s) after %r: %s" % (what, i, kind, path, full[:i], _diff(got, exp)),
            )
        if i < len(steps):
            tags.append(got[0] if got[0] == "ok" else "exc:" + got[1])
    return tags, tree_canon(shared) != ref.canon


# --------------------------------------------------------------------------
# relations between classes of an abstract library
# --------------------------------------------------------------------------
def direct_uses(lib, cid):
    """{class id: how} for model/type classes that cid names directly."""
    c = lib.cls(cid)
    out = {}
    for e in c.get("extends", []):
        out[e["cls"]] = "extends"
    for comp in c.get("comps", []):
        if comp["cls"] not in L.BUILTIN:
            out.setdefault(comp["cls"], "component")
    return out


def uses_closure(lib, cid, memo):
    if cid in memo:
        return memo[cid]
    out = {}
    for k, how in direct_uses(lib, cid).items():
        out.setdefault(k, how)
        for k2 in uses_closure(lib, k, memo):
            out.setdefault(k2, how + "+")
    memo[cid] = out
    return out


def relation(lib, a, b, memo):
    """How the requests for a and b are related (None if they are not)."""
    if a == b:
        return None
    ua, ub = uses_closure(lib, a, memo), uses_closure(lib, b, memo)
    if b in ua:
        return "user_then_used:" + ua[b].rstrip("+")
    if a in ub:
        return "used_then_user:" + ub[a].rstrip("+")
    if a in lib.ancestors(b) or b in lib.ancestors(a):
        return "nested"
    if set(ua) & set(ub):
        return "common_dependency"
    return None


# --------------------------------------------------------------------------
# strategy
# --------------------------------------------------------------------------
def _weighted(pairs):
    pool = []
    for v, w in pairs:
        pool.extend([v] * w)
    return st.sampled_from(pool)


def add_class_mods(draw, data):
    """Class-level modifications (the generator only makes declaration-level
    ones): on components of model type and on extends clauses, addressing a
    Real leaf of the modified class; the value is a literal or a parameter of
    the modifying class (so the modification carries a scope)."""
    classes = data["classes"]
    n = 0
    for c in classes:
        if c["kind"] != "model":
            continue
        own_params = [
            k["name"] for k in c.get("comps", [])
            if k["cls"] == "Real" and not k.get("dims") and k.get("prefixes") == ["parameter"]
        ]
        targets = [("comp", k) for k in c.get("comps", []) if k["cls"] not in L.BUILTIN
                   and [q for q in classes if q["id"] == k["cls"]][0]["kind"] == "model"]
        targets += [("ext", e) for e in c.get("extends", [])]
        for what, t in targets:
            if draw(st.integers(0, 2)) == 0:
                continue
            leaves = [(p, lc) for p, lc, bt in L.leaf_paths(classes, t["cls"]) if bt == "Real" and not lc.get("dims")]
            if not leaves:
                continue
            for _ in range(draw(st.integers(1, 2))):
                p, lc = draw(st.sampled_from(leaves))
                if any(m["path"] == p for m in t["mods"]):
                    continue
                is_par = bool({"parameter", "constant"} & set(lc.get("prefixes", [])))
                attr = draw(st.sampled_from(["value", "start"] if is_par else ["start", "min", "max", "nominal"]))
                if draw(st.integers(0, 2)) == 0:
                    # the value names a parameter of the modifying class: the modification carries a scope
                    if not own_params:
                        name = "q%s" % c["id"][1:]
                        c["comps"].append({"name": name, "cls": "Real", "prefixes": ["parameter"], "dims": [],
                                           "mods": [], "value": ["real", "1.25"]})
                        own_params.append(name)
                    expr = ["var", draw(st.sampled_from(own_params))]
                elif attr == "value":
                    expr = draw(st.sampled_from([["int", 4], ["real", "0.5"]]))
                else:
                    expr = draw(st.sampled_from(L.ATTR_LITS[attr]))
                t["mods"].append({"path": list(p), "attr": attr, "expr": expr})
                n += 1
    return n


@st.composite
def case_strategy(draw):
    data = draw(L.library(L.Opts(max_classes=7)))
    add_class_mods(draw, data)
    # constant gadget: a class constant that one model READS through its class-qualified name
    # (K.cg) and another model MODIFIES on a component of K - requests in either order must agree
    gadget = None
    tops = [c["id"] for c in data["classes"] if c["parent"] is None and c["kind"] == "model"]
    if tops and draw(st.integers(0, 2)) == 0:
        k = draw(st.sampled_from(tops))
        kc = [c for c in data["classes"] if c["id"] == k][0]
        kc["comps"].append({"name": "cg", "cls": "Real", "prefixes": ["constant"], "dims": [], "mods": [], "value": ["real", "9.81"]})
        data["classes"].append({"id": "KR", "parent": None, "kind": "model", "extends": [], "ieqs": [],
                                "comps": [{"name": "r", "cls": "Real", "prefixes": [], "dims": [], "mods": [], "value": None}],
                                "eqs": [[["var", "r"], ["bin", "*", ["int", 2], ["var", k + ".cg"]]]]})
        data["classes"].append({"id": "KU", "parent": None, "kind": "model", "extends": [], "ieqs": [], "eqs": [],
                                "comps": [{"name": "u", "cls": k, "prefixes": [], "dims": [], "value": None,
                                           "mods": [{"path": ["cg"], "attr": "value", "expr": ["real", "1.62"]}]}]})
        gadget = ["KR", "KU"]
    if draw(st.integers(0, 3)) == 0:
        draw(L.add_shadow(data))  # a nested class named like a class of another scope (lookups must not be confused by earlier requests)
    lib = L.Lib(data)
    models = lib.models()
    memo = {}
    pairs = [(a, b) for a in models for b in uses_closure(lib, a, memo) if b in models]
    mode = draw(st.integers(0, 5))
    if gadget and mode <= 2:
        core = list(gadget) if draw(st.booleans()) else list(reversed(gadget))
        if mode == 0:
            core.append(core[0])
    elif pairs and mode <= 3:
        a, b = draw(st.sampled_from(pairs))
        core = [a, b] if draw(st.booleans()) else [b, a]
        if mode <= 1:
            core.append(core[0])
    else:
        c = draw(st.sampled_from(models))
        core = [c, c]
    n = draw(st.integers(2, 8))
    pre = [draw(st.sampled_from(models))] if draw(st.integers(0, 3)) == 0 else []
    seq = pre + core
    pool = models + core + core
    while len(seq) < n:
        seq.append(draw(st.sampled_from(pool)))
    cli = draw(_weighted([(None, 10), ("flatten", 1), ("sympy", 1)]))
    kind = _weighted([("flatten", 4), ("casadi", 3), ("sympy", 1), ("xml", 1)])
    steps = [["flatten" if cli else draw(kind), k] for k in seq]
    # pymoca passes a modification down more than one component level only in the dotted spelling
    spelling = draw(_weighted([("dotted_elem", 3), ("nested", 1)]))
    return {"lib": data, "steps": steps, "cli": cli, "spelling": spelling}


# --------------------------------------------------------------------------
# checks
# --------------------------------------------------------------------------
def history_labels(lib, steps):
    ids = [k for _kind, k in steps]
    labels = ["steps:%d" % len(steps)] + sorted({"kind:" + kind for kind, _k in steps})
    memo = {}
    repeated = len(set(ids)) < len(ids)
    rels = set()
    for i in range(len(ids)):
        for j in range(i + 1, len(ids)):
            r = relation(lib, ids[i], ids[j], memo)
            if r:
                rels.add(r)
    if repeated:
        labels.append("repeated_class")
        for i in range(len(ids)):
            for j in range(i + 1, len(ids)):
                if ids[i] == ids[j] and steps[i][0] != steps[j][0]:
                    labels.append("repeated_class_other_kind")
                    break
            else:
                continue
            break
    labels += ["related:" + r for r in sorted(rels)]
    if any(lib.cls(k)["parent"] for k in ids):
        labels.append("nested_target")
    classes = lib.data["classes"]
    if any(m["path"] for c in classes for t in c.get("comps", []) + c.get("extends", []) for m in t.get("mods", [])):
        labels.append("class_level_modification")
    if any(len(m["path"]) >= 2 for c in classes for t in c.get("comps", []) + c.get("extends", []) for m in t.get("mods", [])):
        labels.append("modification_two_or_more_levels_down")
    if any(m["expr"][0] == "var" for c in classes for t in c.get("comps", []) + c.get("extends", []) for m in t.get("mods", [])):
        labels.append("modification_with_scope")
    if any(c["kind"] == "type" for c in classes):
        labels.append("type_alias")
    strong = {r for r in rels if r.startswith("use") or r == "nested"}
    if any("name" in c for c in lib.data["classes"]):
        labels.append("shadowed_class_name")
    return labels, bool(repeated or strong)


def note_drift(ctx, drift, labels):
    """The parsed tree is structurally different after the history although
    every class still flattens to the fresh-parse result: not demanded by the
    statement (which is about results), counted so that it stays visible."""
    if drift:
        ctx.extra["histories_leaving_a_result_neutral_structural_change_in_the_tree"] += 1
        labels.append("tree_changed_but_results_equal")


def text_of(case):
    if "lib" in case:
        lib = L.Lib(case["lib"])
        return lib, L.print_lib(lib, case.get("spelling", "nested"))
    if "text" in case:  # hand-written corpus seeds
        return None, case["text"]
    p = env.REPO / "test" / "models" / case["file"]
    return None, p.read_text(encoding="utf-8")


def check_case(ctx, case):
    lib, text = text_of(case)
    if lib is None:
        return check_file_case(ctx, case, text, Reference(text))
    steps = [[kind, ".".join(lib.path(k))] for kind, k in case["steps"]]
    labels, nontrivial = history_labels(lib, case["steps"])
    labels.append("spelling:" + case.get("spelling", "nested"))
    if case.get("cli"):
        labels = [lb for lb in labels if not lb.startswith("kind:")]
        labels += check_cli(ctx, text, [p for _k, p in steps], case["cli"])
        return dict(nontrivial=nontrivial, labels=labels, sample={"cli": case["cli"], "models": [p for _k, p in steps], "text": text})
    ref = Reference(text)
    if not ref.parses:
        raise Discard("generated library does not parse")
    tags, drift = run_history(ref, steps, "generated library", ref.paths)
    labels += sorted({"outcome:" + ("ok" if t == "ok" else "exception") for t in tags})
    note_drift(ctx, drift, labels)
    labels.append("generated")
    return dict(nontrivial=nontrivial, labels=labels, sample={"steps": steps, "text": text})


def check_file_case(ctx, case, text, ref):
    if not ref.parses:
        raise Discard("test model does not parse")
    steps = [list(s) for s in case["steps"]]
    name = case.get("file", "corpus text")
    tags, drift = run_history(ref, steps, name, ref.paths)
    paths = [p for _k, p in steps]
    labels = ["test_model" if "file" in case else "corpus_text", "steps:%d" % len(steps)] + sorted({"kind:" + k for k, _p in steps})
    labels += sorted({"outcome:" + ("ok" if t == "ok" else "exception") for t in tags})
    if len(set(paths)) < len(paths):
        labels.append("repeated_class")
    if len(set(paths)) > 1:
        labels.append("other_class_between")
    note_drift(ctx, drift, labels)
    return dict(nontrivial=len(set(paths)) < len(paths), labels=labels, sample={"file": name, "steps": steps})


# --------------------------------------------------------------------------
# CLI
# --------------------------------------------------------------------------
_TC = []


def compiler():
    if not _TC:
        import tools.compiler as tc

        here = Path(tc.__file__).resolve()
        if env.REPO not in here.parents:
            raise env.HarnessError("tools.compiler imported from %s, not from %s" % (here, env.REPO))
        lg = logging.getLogger("pymoca")
        if not any(isinstance(h, logging.NullHandler) for h in lg.handlers):
            lg.addHandler(logging.NullHandler())
        _TC.append(tc)
    return _TC[0]


def call_main(argv, what):
    tc = compiler()
    lg = logging.getLogger("pymoca")
    old = (sys.stderr, sys.stdout, lg.level)
    sys.stderr, sys.stdout = io.StringIO(), io.StringIO()
    try:
        try:
            status = tc.main(list(argv))
        except SystemExit as e:
            raise Violation("cli_exit", "%s: SystemExit(%r) for %r" % (what, e.code, argv))
        except Exception as e:  # noqa: BLE001
            v = as_violation(e, "cli")
            raise Violation(v.kind, "%s: %r let %s escape from main()" % (what, argv, type(e).__name__))
    finally:
        sys.stderr, sys.stdout = old[0], old[1]
        lg.setLevel(old[2])
    if isinstance(status, bool) or not isinstance(status, int):
        raise Violation("cli_status_not_int", "%s: main(%r) returned %r" % (what, argv, status))
    return status


_COUNTER = [0]


def check_cli(ctx, text, models, target):
    _COUNTER[0] += 1
    work = Path(ctx.scratch) / ("c05_cli_%d" % _COUNTER[0])
    if work.exists():
        shutil.rmtree(work)
    (work / "src").mkdir(parents=True)
    src = work / "src" / "lib.mo"
    src.write_text(text, encoding="utf-8")
    try:
        def argv_for(ms, outdir):
            a = []
            for m in ms:
                a += ["-m", m]
            if target == "sympy":
                outdir.mkdir()
                a += ["-t", "sympy", "-o", str(outdir)]
            return a + [str(src)]

        def written(outdir, m):
            p = outdir / (m + ".py")
            return p.read_text() if p.is_file() else None

        combined = call_main(argv_for(models, work / "out_all"), "combined call")
        single = {}
        for i, m in enumerate(dict.fromkeys(models)):
            single[m] = call_main(argv_for([m], work / ("out_%d" % i)), "single-model call")
            if single[m] not in (0, 1):
                raise Violation("cli_single_status:" + target, "-m %s alone: status %r\n%s" % (m, single[m], text))
            if target == "sympy" and written(work / "out_all", m) != written(work / ("out_%d" % i), m):
                raise Violation(
                    "cli_output_differs:sympy",
                    "-m %s: %s.py written by `-m %s` differs from the one written when requested alone\n%s"
                    % (m, m, " -m ".join(models), text),
                )
        total = sum(single[m] for m in models)
        if combined != total:
            raise Violation(
                "cli_status_not_sum:%s:%s" % (target, "over" if combined > total else "under"),
                "`-m %s`%s: status %d, the models requested alone give %r (sum %d)\n%s"
                % (" -m ".join(models), " -t sympy" if target == "sympy" else "", combined, single, total, text),
            )
        labels = ["cli:" + target, "cli_models:%d" % len(models)]
        if total:
            labels.append("cli_some_model_fails")
        if total < len(models):
            labels.append("cli_some_model_succeeds")
        return labels
    finally:
        shutil.rmtree(work, ignore_errors=True)


# --------------------------------------------------------------------------
# test-model sweep
# --------------------------------------------------------------------------
def sweep(ctx):
    d = env.REPO / "test" / "models"
    files = sorted(p.name for p in d.glob("*.mo"))
    for i, name in enumerate(files):
        if i % ctx.nshards != ctx.shard:
            continue
        try:
            text = (d / name).read_text(encoding="utf-8")
        except UnicodeDecodeError:
            ctx.discard("test model is not UTF-8")
            continue
        ref = Reference(text)
        if not ref.parses:
            ctx.discard("test model does not parse")
            continue
        paths = class_paths(parse_fresh(text))
        for j, c in enumerate(paths):
            others = [p for p in paths if p != c]
            if ctx.tier == "quick":
                others = [paths[(j + 1) % len(paths)]] if len(paths) > 1 else []
                seqs = [[["flatten", c], ["flatten", c]] + [["flatten", o] for o in others] + [["flatten", c]]]
            else:
                seqs = []
                for o in others or [c]:
                    seqs.append([["flatten", c], ["flatten", c], ["flatten", o], ["flatten", c], ["casadi", o],
                                 ["casadi", c], ["xml", c], ["sympy", c], ["casadi", c], ["flatten", o]])
            for steps in seqs:
                if ctx.over_budget():
                    return
                case = {"file": name, "steps": steps}
                run_one(ctx, lambda cx, cs, _t=text, _r=ref: check_file_case(cx, cs, _t, _r), case)


def shard(ctx):
    sweep(ctx)
    drive(ctx, case_strategy(), check_case, ctx.share(200, 5000))


def replay(ctx, case):
    check_case(ctx, case)


MANIFEST = dict(
    text="Histories of flatten / CasADi / SymPy / XML generate requests (with repetition, users before and "
    "after the classes they use, bases before and after derived classes) are run on one shared parsed "
    "tree; after every request the result must equal the result of the same request on a fresh parse "
    "of the same text (or raise the same exception class); every history ends with a flatten of every "
    "class of the text, compared the same way.  Inputs: generated class libraries with component hierarchies, extends and modifications, "
    "and every class of every model in the repository's test/models.  The compiler tool is run with "
    "several -m at once and with each -m alone: statuses must add up and SymPy output files must be "
    "identical.  Sampling over histories up to 8 requests (10 for the test-model sweep in the thorough tier).",
    note="Trusts that a cache-bypassing parse of the same text is a faithful 'fresh tree', the canonical "
    "forms (Node.to_json without back references; CasADi MX string forms), and that an exception class "
    "is an adequate summary of a failing request.",
    technique="property-based history testing with a fresh-run differential oracle + deterministic sweep over the repository's models + metamorphic CLI split",
)
