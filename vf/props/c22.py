"""C22 - Delay durations are validated and delay arguments preserved.

Generated flat models with 1-3 delay() calls (outside and inside for-loops)
are handed to transfer_model.  Every duration is a positive-coefficient
sum of products of drawn "members", each member being a variable of one
category, so the dependence on a drawn member can never cancel.  Oracle:
transfer_model raises iff some member is time / a state / a derivative / an
algebraic variable / a non-fixed input; for accepted models
delay_arguments_function is evaluated at drawn points and compared with the
reference evaluator working on the abstract expressions."""
import re
import numpy as np
from hypothesis import strategies as st

from vf.core import Discard, Violation, drive, guarded, pymoca_frame
from vf.gen import dae as D
from vf.gen import expr as X

ID = "C22"
LEVEL = "exploration"
RULE = (
    "flat models with constants, parameters (scalars and an array), a fixed and a non-fixed input, states "
    "(scalars and an array, with der equations), algebraic variables (scalars and an array) and 1-3 delay() calls: "
    "`y = delay(expr, dur)` outside loops and `for i in lo:hi loop z[i] = delay(expr(i), dur); end for` (optionally "
    "with a sibling equation in the loop, shifted subscripts, free scalars in the delayed expression); dur = sum of "
    "1-3 terms, each a positive literal times a product of 1-2 members drawn from {constant, parameter, fixed "
    "input, non-fixed input, time, state, derivative, algebraic} (scalars, constant-subscripted array elements and, "
    "inside loops, elements subscripted by the loop index / the loop index itself); options drawn from expand_mx, "
    "expand_vectors, unroll_loops, inline_functions; about half of the cases have only allowed members, the others "
    "have one forced disallowed member (every category equally often) among mostly allowed ones; accepted models "
    "are evaluated at 2 drawn points.  non-trivial = some duration mixes an allowed and a disallowed category, or a "
    "delay inside a loop; distinct = distinct abstract case."
)
ASSUMPTIONS = [
    "only option sets that do not re-classify variables are drawn (expand_mx, expand_vectors, unroll_loops, "
    "inline_functions; everything else default, cache/codegen off): replace_parameter_values, detect_aliases, "
    "eliminable_variable_expression ... can turn a variable of one category into another and the statement is "
    "about the model's own categories",
    "categories are the declared ones: a variable is a state iff the model contains its der() (classification itself is C10's property)",
    "'rejects' = any exception out of transfer_model; a NotImplementedError for a model with allowed durations only "
    "is pymoca documenting 'outside the supported subset' and is a counted discard (framework convention, DESIGN 1.3)",
    "delay calls are numbered in source order: delay_states[k] and outputs 2k, 2k+1 of delay_arguments_function "
    "belong to the k-th delay call (one per call; with expand_vectors one per element, elements in iteration order); "
    "the output for a delay inside a loop is the vector over the iterations",
    "delayed expressions inside loops always contain an array element subscripted by the loop index (a "
    "loop-invariant delayed expression is legitimately one scalar delay and is not generated); no nested delay calls",
    "values compared with |a-b| <= 1e-9*(1+max(|a|,|b|)); the reference semantics are vf.gen.dae.E / vf.gen.expr.Eval",
]
SOFT_BUDGET_S = {"quick": 120, "thorough": 3000}

ALLOWED = ("constant", "parameter", "fixed_input", "loop_index")
DISALLOWED = ("time", "state", "derivative", "algebraic", "nonfixed_input")
CATS = ("constant", "parameter", "fixed_input", "nonfixed_input", "time", "state", "derivative", "algebraic")
OPTION_NAMES = ("expand_mx", "expand_vectors", "unroll_loops", "inline_functions")
# options that eliminate variables by substitution (a duration that is a bare symbol may be the eliminated one)
ELIM_OPTION_NAMES = ("detect_aliases", "replace_constant_values")
# known-finding features (excluded by construction while a matching KNOWN_FINDINGS entry is active)
F_FREE = "loop_expr_free_symbol"  # delayed expression inside a loop uses a scalar that occurs nowhere else in the loop body
F_IDXDUR = "loop_indexed_duration"  # duration inside a loop depends on the loop index / an element subscripted by it

I = ["var", "i"]
COEFS = ["0.5", "1.5", "2.0", "1.25", "3.0", "2", "3", "1", "1"]  # "1": no factor at all (a term may be a bare symbol)


# --------------------------------------------------------------------------
# abstract case -> members / expressions
# --------------------------------------------------------------------------
def scalar_members(cat, n, ev=False):
    """Expression nodes of one category usable in any duration (ev: the model is compiled with
    expand_vectors, where an input array may be fixed element by element)."""
    if cat == "constant":
        return [["var", "c0"], ["var", "c1"]]
    if cat == "parameter":
        return [["var", "p0"], ["var", "p1"]] + [["idx", "pa", k] for k in range(1, n + 1)]
    if cat == "fixed_input":
        return [["var", "uf"]] + [["idx", "uaf", k] for k in range(1, n + 1)] + ([["idx", "um", 1, 1], ["idx", "um", 2, 2]] if ev else [])
    if cat == "nonfixed_input":
        return [["var", "un"]] + [["idx", "uan", k] for k in range(1, n + 1)] + ([["idx", "um", 1, 2], ["idx", "um", 2, 1]] if ev else [])
    if cat == "time":
        return [["time"]]
    if cat == "state":
        return [["var", "x0"], ["var", "x1"]] + [["idx", "xs", k] for k in range(1, n + 1)]
    if cat == "derivative":
        return [["der", ["var", "x0"]], ["der", ["var", "x1"]]]
    if cat == "algebraic":
        return [["var", "a0"], ["var", "a1"], ["var", "ad"]] + [["idx", "xa", k] for k in range(1, n + 1)]
    raise ValueError(cat)


def indexed_members(cat):
    """Members that depend on the loop index (only inside loops)."""
    return {
        "parameter": [["idxe", "pa", I]],
        "state": [["idxe", "xs", I]],
        "algebraic": [["idxe", "xa", I]],
        "loop_index": [I],
    }.get(cat, [])


def is_indexed(node):
    return any(nd == I for nd in X.walk(node))


def dur_expr(dur):
    """dur = [[coef, [[cat, node], ...]], ...] -> expression tree."""
    terms = []
    for coef, members in dur:
        lit = ["real", coef] if "." in coef else ["int", int(coef)]
        t = lit if coef != "1" else None
        for _cat, node in members:
            t = node if t is None else ["bin", "*", t, node]
        terms.append(t)
    e = terms[0]
    for t in terms[1:]:
        e = ["bin", "+", e, t]
    return e


def dur_cats(dur):
    return [cat for _c, members in dur for cat, _n in members]


def free_scalars(e):
    """Non-loop-local symbols of a delayed loop expression (incl. time)."""
    out = set()
    for nd in X.walk(e):
        if nd[0] == "var" and nd[1] != "i":
            out.add(nd[1])
        elif nd[0] == "time":
            out.add("time")
    return sorted(out)


def build_model(case):
    n = case["n"]
    v = D.var
    vars_ = [
        v("c0", prefix="constant", value=["real", "0.75"]),
        v("c1", prefix="constant", value=["real", "1.25"]),
        v("p0", prefix="parameter", value=["real", "1.5"]),
        v("p1", prefix="parameter", value=["real", "2.5"]),
        v("pa", prefix="parameter", dims=[n], value=["arrlit", [["real", "%d.5" % k] for k in range(n)]]),
        v("uf", prefix="input", attrs={"fixed": ["bool", True]}),
        v("un", prefix="input"),
        v("uaf", prefix="input", dims=[n], attrs={"each fixed": ["bool", True]}),
        v("uan", prefix="input", dims=[n]),
        v("x0"), v("x1"), v("a0"), v("a1"), v("ad"),
        v("xs", dims=[n]), v("xa", dims=[n]),
    ]
    if case["opts"].get("expand_vectors"):
        # fixed element by element (well defined once every element is a variable of its own)
        vars_.append(v("um", prefix="input", dims=[2, 2], attrs={"fixed": ["arrlit", [
            ["arrlit", [["bool", True], ["bool", False]]], ["arrlit", [["bool", False], ["bool", True]]]]]}))
    eqs = [
        ["eq", ["der", ["var", "x0"]], ["bin", "+", ["var", "a0"], ["var", "un"]]],
        ["eq", ["der", ["var", "x1"]], ["bin", "*", ["var", "x0"], ["var", "uf"]]],
        ["eq", ["var", "a0"], ["bin", "+", ["bin", "*", ["int", 2], ["var", "x0"]], ["time"]]],
        ["eq", ["var", "a1"], ["bin", "*", ["var", "a0"], ["var", "p0"]]],
        ["eq", ["var", "ad"], ["var", "x0"]],  # an alias of a state (eliminated by detect_aliases)
        ["for", "i", 1, n, None, [["eq", ["der", ["idxe", "xs", I]], ["bin", "+", ["idxe", "xa", I], ["var", "x0"]]]]],
    ]
    for k, d in enumerate(case["delays"]):
        call = ["call", "delay", d["expr"], dur_expr(d["dur"])]
        if d.get("array"):
            # a whole vector / matrix is delayed by one call
            for nm in ("am", "bm", "ym"):
                vars_.append(v("%s%d" % (nm, k), dims=list(d["array"])))
            eqs.append(["eq", ["var", "ym%d" % k], call])
        elif not d["loop"]:
            vars_.append(v("y%d" % k))
            eqs.append(["eq", ["var", "y%d" % k], call])
        else:
            vars_.append(v("z%d" % k, dims=[n]))
            body = []
            if d["sibling"]:
                # an ordinary equation in the same loop that mentions every free scalar of the delayed expression
                vars_.append(v("w%d" % k, dims=[n]))
                rhs = ["idxe", "xa", I]
                for s in free_scalars(d["expr"]):
                    rhs = ["bin", "+", rhs, ["time"] if s == "time" else ["var", s]]
                body.append(["eq", ["idxe", "w%d" % k, I], rhs])
            body.append(["eq", ["idxe", "z%d" % k, I], call])
            eqs.append(["for", "i", d["lo"], d["hi"], None, body])
    return {"name": "M", "n": n, "m": 1, "vars": vars_, "funcs": [], "eqs": eqs, "ieqs": []}


# --------------------------------------------------------------------------
# features
# --------------------------------------------------------------------------
def case_features(case):
    feats = set()
    for d in case["delays"]:
        if d["loop"]:
            if not d["sibling"] and free_scalars(d["expr"]):
                feats.add(F_FREE)
            if any(is_indexed(node) for _c, ms in d["dur"] for _cat, node in ms):
                feats.add(F_IDXDUR)
    return feats


def expected_rejected(case):
    return sorted({c for d in case["delays"] for c in dur_cats(d["dur"]) if c in DISALLOWED})


# --------------------------------------------------------------------------
# oracle
# --------------------------------------------------------------------------
def make_point(case, rs):
    n = case["n"]
    env = {"time": float(rs.uniform(0.5, 3.0))}
    der = {}
    for name in ("c0", "c1", "p0", "p1", "uf", "un", "x0", "x1", "a0", "a1"):
        env[name] = float(rs.uniform(0.5, 3.0))
        der[name] = float(rs.uniform(0.5, 3.0))
    # points consistent with what the eliminating options substitute
    env["ad"], der["ad"] = env["x0"], der["x0"]
    if case["opts"].get("replace_constant_values"):
        env["c0"], env["c1"] = 0.75, 1.25
    names = ["pa", "xs", "xa", "uaf", "uan"]
    if case["opts"].get("expand_vectors"):
        env["um"] = rs.uniform(0.5, 3.0, size=(2, 2))
        der["um"] = rs.uniform(0.5, 3.0, size=(2, 2))
        for idx in np.ndindex(2, 2):
            env["um[%d,%d]" % (idx[0] + 1, idx[1] + 1)] = float(env["um"][idx])
    for k, d in enumerate(case["delays"]):
        names.append(("z%d" if d["loop"] else "y%d") % k)
        if d["loop"] and d["sibling"]:
            names.append("w%d" % k)
    for k, d in enumerate(case["delays"]):
        if d.get("array"):
            names.remove("y%d" % k)
            for nm in ("am%d" % k, "bm%d" % k, "ym%d" % k):
                shape = tuple(d["array"])
                env[nm] = rs.uniform(0.5, 3.0, size=shape)
                der[nm] = rs.uniform(0.5, 3.0, size=shape)
                for idx in np.ndindex(*shape):
                    key = "%s[%s]" % (nm, ",".join(str(i + 1) for i in idx))
                    env[key] = float(env[nm][idx])
                    der[key] = float(der[nm][idx])
    for name in names:
        if name.startswith("y"):
            env[name] = float(rs.uniform(0.5, 3.0))
            der[name] = float(rs.uniform(0.5, 3.0))
            continue
        env[name] = rs.uniform(0.5, 3.0, size=n)
        der[name] = rs.uniform(0.5, 3.0, size=n)
        for j in range(n):  # names used by expand_vectors
            env["%s[%d]" % (name, j + 1)] = float(env[name][j])
            der["%s[%d]" % (name, j + 1)] = float(der[name][j])
    return env, der


def evalnum(e, env, der):
    """Reference value (array-aware evaluator with derivative values)."""
    return float(D.E(env, "casadi", {}, der=der).ev(e))


def reference(case, env, der):
    """[(expr values, duration values)] per expected delay state, in order."""
    ev_opt = case["opts"]["expand_vectors"]
    out = []
    for d in case["delays"]:
        de = dur_expr(d["dur"])
        if d.get("array"):
            val = np.array(D.E(env, "casadi", {}, der=der).ev(d["expr"]), dtype=float)
            assert val.shape == tuple(d["array"]), (val.shape, d["array"])
            dv = [evalnum(de, env, der)]
            if ev_opt:
                lookup = {tuple(i + 1 for i in idx) + (1,) * (2 - val.ndim): float(val[idx]) for idx in np.ndindex(*val.shape)}
                out += [([lookup[key]], dv, "array", lookup) for key in sorted(lookup)]
            else:
                out.append((list(val.reshape(-1)), dv, "array", None))
            continue
        if not d["loop"]:
            out.append(([evalnum(d["expr"], env, der)], [evalnum(de, env, der)], "scalar"))
            continue
        ev, dv = [], []
        for i in range(d["lo"], d["hi"] + 1):
            en = dict(env, i=i)
            ev.append(evalnum(d["expr"], en, der))
            dv.append(evalnum(de, en, der))
        indexed = any(is_indexed(node) for _c, ms in d["dur"] for _cat, node in ms)
        if ev_opt:
            out += [([a], [b], "loop") for a, b in zip(ev, dv)]
        else:
            out.append((ev, dv if indexed else dv[:1], "loop"))
    return out


def close(a, b):
    return abs(a - b) <= 1e-9 * (1.0 + max(abs(a), abs(b)))


def describe(case):
    return "; ".join(
        "%s delay: duration %s [%s]" % ("loop" if d["loop"] else "scalar", D.pe(dur_expr(d["dur"])), ",".join(dur_cats(d["dur"])))
        for d in case["delays"]
    )


def check_case(ctx, case):
    feats = case_features(case)
    try:
        return _check_case(ctx, case)
    except Violation as v:
        for f in sorted(feats):
            v.kind += "+" + f
        raise


def _check_case(ctx, case):
    import casadi as ca
    from pymoca.backends.casadi import api

    m = build_model(case)
    text = D.print_model(m)
    folder = ctx.scratch / "c22_model"
    folder.mkdir(exist_ok=True)
    (folder / "M.mo").write_text(text)
    for stale in folder.glob("*.pymoca_cache*"):
        stale.unlink()
    use_cache = bool(case.get("cache"))
    options = dict(case["opts"], cache=use_cache, codegen=False)
    bad = expected_rejected(case)
    model, exc = None, None
    try:
        model = api.transfer_model(str(folder), "M", options)
    except Exception as e:  # noqa: BLE001 - "rejects" = any exception from the code under test
        if pymoca_frame(e) == "?":
            raise
        exc = e
    where = "%s\noptions %r cache=%r\n%s" % (describe(case), case["opts"], use_cache, text)
    if use_cache:
        # the same request again: the verdict must not depend on what the first call left in the folder
        model2, exc2 = None, None
        try:
            model2 = api.transfer_model(str(folder), "M", options)
        except Exception as e:  # noqa: BLE001
            if pymoca_frame(e) == "?":
                raise
            exc2 = e
        if (exc is None) != (exc2 is None):
            raise Violation(
                "verdict_changes_on_repeat:%s_then_%s" % ("accepted" if exc is None else "rejected", "accepted" if exc2 is None else "rejected"),
                "first transfer_model: %s, second: %s\n%s" % (
                    "returned" if exc is None else type(exc).__name__, "returned %s" % type(model2).__name__ if exc2 is None else type(exc2).__name__, where))
        if model2 is not None:
            model = model2  # the delay arguments are checked on what a caller gets from the cache
    labels = labels_of(case, bad)
    nontrivial = any(d["loop"] for d in case["delays"]) or any(
        set(dur_cats(d["dur"])) & set(DISALLOWED) and set(dur_cats(d["dur"])) & set(ALLOWED) for d in case["delays"]
    )
    if bad:
        if exc is None:
            raise Violation("accepted_disallowed:" + ",".join(bad), "transfer_model returned a model although a duration depends on %s\n%s" % (bad, where))
        labels.append("rejected_by:" + type(exc).__name__)
        return dict(nontrivial=nontrivial, labels=labels, sample={"text": text, "options": case["opts"], "outcome": "rejected"})
    if exc is not None:
        if isinstance(exc, NotImplementedError):
            raise Discard("NotImplementedError:" + pymoca_frame(exc))
        raise Violation(
            "rejected_allowed:" + type(exc).__name__,
            "transfer_model raised %s: %s although all duration members are in %s\n%s"
            % (type(exc).__name__, str(exc)[:200], sorted(set(c for d in case["delays"] for c in dur_cats(d["dur"]))), where),
        )

    # ---- accepted: delay states and delay arguments ----------------------
    rs = np.random.RandomState(case["seed"])
    env, der = make_point(case, rs)
    ref = reference(case, env, der)
    delay_states = list(model.delay_states)
    if len(delay_states) != len(ref):
        raise Violation("delay_states_count", "delay_states %r, expected %d entries\n%s" % (delay_states, len(ref), where))
    if len(set(delay_states)) != len(delay_states):
        raise Violation("delay_states_duplicate", "delay_states %r\n%s" % (delay_states, where))
    inputs = {v.symbol.name(): v for v in model.inputs}
    for name in delay_states:
        if name not in inputs:
            raise Violation("delay_state_not_input", "delay state %r is not among the inputs %r\n%s" % (name, sorted(inputs), where))
    f = guarded(lambda: model.delay_arguments_function, where="delay_arguments_function")
    if f.n_out() != 2 * len(ref):
        raise Violation("delay_outputs_count", "delay_arguments_function has %d outputs, expected %d\n%s" % (f.n_out(), 2 * len(ref), where))
    for point in range(2):
        if point:
            env, der = make_point(case, rs)
            ref = reference(case, env, der)
        for j, name in enumerate(delay_states):
            # the delayed signals themselves are free inputs: any value must do
            env[name] = np.full(inputs[name].symbol.numel(), 7.0 + j)
        args = D.model_args(model, env, der, f)
        out = guarded(f.call, args, where="eval_delay_arguments")
        for k, entry in enumerate(ref):
            evals, dvals, kind = entry[:3]
            if len(entry) > 3 and entry[3] is not None:
                # element of an expanded array delay: pair by the subscripts in the delay state's name
                mt = re.search(r"\[(\d+),(\d+)\]$", delay_states[k])
                if mt is not None and (int(mt.group(1)), int(mt.group(2))) in entry[3]:
                    evals = [entry[3][(int(mt.group(1)), int(mt.group(2)))]]
            got_e = list(np.array(ca.DM(out[2 * k]), dtype=float).reshape(-1))
            got_d = list(np.array(ca.DM(out[2 * k + 1]), dtype=float).reshape(-1))
            if len(got_e) != len(evals) or not all(close(a, b) for a, b in zip(got_e, evals)):
                what = "duration_returned_as_expression" if len(got_e) == len(dvals) and all(close(a, b) for a, b in zip(got_e, dvals)) and not all(close(a, b) for a, b in zip(evals, dvals)) else "delay_expr_value"
                raise Violation("%s:%s" % (what, kind), "delay %d (%s): expression output %r, reference %r\n%s" % (k, delay_states[k], got_e, evals, where))
            if len(got_d) != len(dvals) or not all(close(a, b) for a, b in zip(got_d, dvals)):
                raise Violation("delay_duration_value:" + kind, "delay %d (%s): duration output %r, reference %r\n%s" % (k, delay_states[k], got_d, dvals, where))
    labels.append("accepted_checked")
    kinds = {("checked:loop_expanded" if case["opts"]["expand_vectors"] else "checked:loop_vector") if d["loop"] else
             ("checked:array%dd_%s" % (len(d["array"]), "expanded" if case["opts"]["expand_vectors"] else "whole") if d.get("array") else "checked:scalar")
             for d in case["delays"]}
    labels += sorted(kinds)
    if len({tuple(r[1]) for r in ref}) >= 2:
        labels.append("checked:distinct_durations")
    return dict(nontrivial=nontrivial, labels=labels, sample={"text": text, "options": case["opts"], "outcome": "accepted"})


def labels_of(case, bad):
    labels = ["expected:" + ("rejected" if bad else "accepted"), "delays:%d" % len(case["delays"]), "cache:%s" % bool(case.get("cache"))]
    labels += ["opt:%s=%s" % (k, case["opts"][k]) for k in OPTION_NAMES]
    labels += ["opt:%s" % k for k in ELIM_OPTION_NAMES if case["opts"].get(k)]
    if any(coef == "1" and len(ms) == 1 for d in case["delays"] for coef, ms in d["dur"]):
        labels.append("dur:bare_symbol_term")
    seen = set()
    for d in case["delays"]:
        cats = dur_cats(d["dur"])
        where = "loop" if d["loop"] else ("array" if d.get("array") else "scalar")
        seen.add("delay:" + where)
        for c in cats:
            seen.add("cat:" + c)
            seen.add("cat:%s:%s" % (c, where))
        dis = set(cats) & set(DISALLOWED)
        if dis and set(cats) & set(ALLOWED):
            seen.add("mixed_duration")
        if len(dis) == 1 and len(expected_rejected(case)) == 1:
            seen.add("only_disallowed:" + next(iter(dis)))
        if len(d["dur"]) > 1:
            seen.add("dur:sum")
        if any(len(ms) > 1 for _c, ms in d["dur"]):
            seen.add("dur:product")
        if any(node[0] == "idx" for _c, ms in d["dur"] for _cat, node in ms):
            seen.add("dur:array_element")
        if d["loop"]:
            if d["sibling"]:
                seen.add("loop:sibling_equation")
            if free_scalars(d["expr"]):
                seen.add("loop:free_scalar_in_expr")
            if any(nd[0] == "idxe" and nd[2] != I for nd in X.walk(d["expr"])):
                seen.add("loop:shifted_subscript")
            if d["lo"] > 1 or d["hi"] < case["n"]:
                seen.add("loop:partial_range")
    seen |= case_features(case)
    return labels + sorted(seen)


# --------------------------------------------------------------------------
# strategy
# --------------------------------------------------------------------------
@st.composite
def scalar_expr(draw, n):
    cfg = X.Cfg(vars_=["x0", "x1", "a0", "a1", "un", "uf", "p0"], funcs1=["sin", "cos"], funcs2=[], elementwise=False,
                allow_if=False, allow_pos=False, allow_pow=False, allow_div=False, allow_time=True,
                idx_vars=[("xs", [n]), ("xa", [n])])
    e = draw(X.num_expr(cfg, draw(st.integers(0, 2))))
    if not any(nd[0] in ("var", "idx", "time") for nd in X.walk(e)):
        # delay(<literal>, d) is degenerate (nothing to delay) and not in the statement's domain
        e = ["bin", draw(st.sampled_from(["+", "*"])), e, draw(st.sampled_from([["var", "x0"], ["var", "a1"], ["var", "un"]]))]
    return e


@st.composite
def loop_expr(draw, n, lo, hi, allow_free):
    shifts = [0, 0]
    if hi < n:
        shifts.append(1)
    if lo > 1:
        shifts.append(-1)

    def elem():
        s = draw(st.sampled_from(shifts))
        sub = I if s == 0 else ["bin", "+" if s > 0 else "-", I, ["int", 1]]
        return ["idxe", draw(st.sampled_from(["xs", "xa"])), sub]

    first = elem()
    if draw(st.booleans()):
        first = ["bin", "*", ["real", draw(st.sampled_from(["0.5", "2.0", "3.0"]))], first]
    kinds = ["none", "elem", "index", "lit"] + (["free", "free", "free"] if allow_free else [])
    e = first
    for _ in range(draw(st.integers(0, 2))):
        k = draw(st.sampled_from(kinds))
        if k == "none":
            continue
        if k == "elem":
            other = elem()
        elif k == "index":
            other = I
        elif k == "lit":
            other = ["real", draw(st.sampled_from(["0.5", "1.5", "2.0"]))]
        else:
            other = draw(st.sampled_from([["var", "x0"], ["var", "a0"], ["var", "un"], ["var", "p0"], ["var", "uf"], ["time"]]))
        e = ["bin", draw(st.sampled_from(["+", "-", "*"])), e, other] if draw(st.booleans()) else ["bin", draw(st.sampled_from(["+", "*"])), other, e]
    return e


@st.composite
def member(draw, cat, n, in_loop, allow_indexed, ev=False):
    pool = scalar_members(cat, n, ev)
    if in_loop and allow_indexed and indexed_members(cat) and draw(st.booleans()):
        pool = indexed_members(cat)
    return [cat, draw(st.sampled_from(pool))]


@st.composite
def duration(draw, n, in_loop, forced, allow_indexed, ev=False):
    """forced: None (allowed members only) or a disallowed category that must occur."""
    n_members = draw(st.integers(1, 3))
    allowed = ["constant", "parameter", "fixed_input"]
    # durations that vary with the loop iteration: a rare, separately labelled variant
    allow_indexed = in_loop and allow_indexed and draw(st.integers(0, 4)) == 0
    if allow_indexed:
        allowed = allowed + ["loop_index"]
    cats = []
    for _ in range(n_members):
        if forced is None or draw(st.integers(0, 9)) < 8:
            cats.append(draw(st.sampled_from(allowed)))
        else:
            cats.append(draw(st.sampled_from(CATS)))
    if forced is not None:
        cats[draw(st.integers(0, n_members - 1))] = forced
    members = []
    for c in cats:
        if c == "loop_index":
            members.append([c, I])
        else:
            members.append(draw(member(c, n, in_loop, allow_indexed, ev)))
    # split the members into terms: each term = coef * product of 1-2 members
    terms = []
    i = 0
    while i < len(members):
        take = 2 if (i + 1 < len(members) and draw(st.booleans())) else 1
        terms.append([draw(st.sampled_from(COEFS)), members[i : i + take]])
        i += take
    return terms


@st.composite
def case_strategy(draw, ctx=None):
    known_free = ctx is not None and ctx.known(F_FREE)
    known_idx = ctx is not None and ctx.known(F_IDXDUR)
    n = draw(st.integers(2, 4))
    opts = {k: draw(st.booleans()) for k in OPTION_NAMES}
    for k in ELIM_OPTION_NAMES:
        opts[k] = draw(st.integers(0, 2)) == 0
    n_delays = draw(st.sampled_from([1, 2, 2, 3]))
    accept = draw(st.booleans())
    forced_at = None if accept else draw(st.integers(0, n_delays - 1))
    forced_cat = None if accept else draw(st.sampled_from(DISALLOWED))
    delays = []
    for k in range(n_delays):
        loop = draw(st.booleans())
        forced = forced_cat if k == forced_at else None
        # delays other than the forced one may draw anything only in rejected cases
        d = {"loop": loop}
        if loop:
            lo = draw(st.sampled_from([1, 1, 2]))
            hi = draw(st.integers(lo, n)) if draw(st.integers(0, 2)) == 0 else n
            if hi == lo and n > lo:
                hi = lo + 1
            d["lo"], d["hi"] = lo, hi
            d["sibling"] = draw(st.booleans())
            allow_free = True
            if known_free and not d["sibling"]:
                allow_free = False
                ctx.exclude(F_FREE)
            d["expr"] = draw(loop_expr(n, lo, hi, allow_free))
            if known_idx:
                ctx.exclude(F_IDXDUR)
        elif draw(st.integers(0, 3)) == 0:
            shape = draw(st.sampled_from([[2, 2], [2, 3], [3, 2], [3, 1], [1, 3], [n]]))
            d["array"] = shape
            a, b = ["var", "am%d" % k], ["var", "bm%d" % k]
            coef = ["real", draw(st.sampled_from(["0.5", "2.0", "3.0"]))]
            d["expr"] = draw(st.sampled_from([["bin", "*", coef, a], ["bin", "+", a, b], ["bin", "-", ["bin", "*", coef, a], b]]))
        else:
            d["expr"] = draw(scalar_expr(n))
        d["dur"] = draw(duration(n, loop, forced, not known_idx, opts["expand_vectors"]))
        delays.append(d)
    return {"n": n, "opts": opts, "delays": delays, "seed": draw(st.integers(0, 2**31 - 1)), "cache": draw(st.integers(0, 3)) == 0}


def shard(ctx):
    drive(ctx, case_strategy(ctx), check_case, ctx.share(1000, 25000))


def replay(ctx, case):
    check_case(ctx, case)


MANIFEST = dict(
    text="Generated flat models with delay() calls outside for-loops (scalar, and whole vectors or matrices delayed by one call) and inside for-loops, whose durations are "
    "positive-coefficient sums of products over variables of every category (so dependence cannot cancel), are "
    "compiled with transfer_model under the option sets that keep variable categories.  The check demands an "
    "exception exactly when a duration contains time, a state, a derivative, an algebraic variable or a non-fixed "
    "input, and for accepted models compares every (expression, duration) output of delay_arguments_function, "
    "in delay order, with a reference evaluation of the abstract expressions at drawn points.  Sampling.",
    note="Trusts the reference evaluator (vf/gen/dae.py, vf/gen/expr.py), the model printer and CasADi's numeric "
    "evaluation; delay calls are matched to outputs by source order.",
    technique="property-based testing with a category oracle and differential numeric evaluation of delay arguments",
)
