"""C11 - DAE residual equals the Modelica meaning of the flat equations.

Generated flat models (vf.gen.dae) are compiled by the CasADi backend with
default options; dae_residual_function / initial_residual_function are
evaluated at drawn points (derivatives drawn independently) and compared, per
equation, with the reference evaluator working on the abstract model."""
import numpy as np
from hypothesis import strategies as st

from vf.core import Discard, Violation, drive, guarded
from vf.gen import dae as D
from vf.gen import expr as X

ID = "C11"
LEVEL = "exploration"
RULE = (
    "flat models with scalars, parameters, constants, an input, Boolean variables, 1-D and 2-D arrays; "
    "2-6 equations drawn from: scalar equations over the full expression grammar (+ - * / ^ and "
    "element-wise forms, sin cos tan exp log sqrt abs min max, if-expressions, relations, not/and/or, "
    "time, indexed array elements, user-function calls), der equations, Boolean equations, whole-array "
    "/ slice / stepped-slice / sum / matrix equations, for-equations (1-3 body equations, shifted "
    "index, stepped range), if-equations with elseif/else, initial equations, user functions with "
    "assignment / if / for statements; each model evaluated at 3 drawn points.  non-trivial = uses "
    ">= 1 of {division, power, if-equation, for-loop with shifted index, function with control flow, "
    "slice}; distinct = distinct abstract model."
)
ASSUMPTIONS = [
    "element order inside one equation is column-major (veccat), equations in source order; the entries "
    "of one for-equation are compared as a multiset (iteration-major vs equation-major order is not part of the property)",
    "Booleans are 0/1, `and` is the product, `or` the sum, as the statement fixes",
    "points where the reference is within 1e-6 of a branch flip, non-finite or outside the real domain are redrawn",
    "array*array products other than scalar*array and element-wise forms are not generated (not in the statement's list)",
    "variable positions in the function arguments are taken from the model's own variable lists (classification is C10's property)",
]
SOFT_BUDGET_S = {"quick": 150, "thorough": 3000}

NT_FEATURES = {"division", "power", "if_eq", "for_shifted", "func:ifs", "func:fors", "slice", "slice3"}


def compare_blocks(blocks, got, what, text):
    got = list(np.array(got, dtype=float).reshape(-1))
    total = sum(len(b[1]) for b in blocks)
    if total != len(got):
        raise Violation("residual_length:" + what, "%s has %d entries, reference %d\n%s" % (what, len(got), total, text))
    off = 0
    for bi, (kind, vals) in enumerate(blocks):
        g = got[off : off + len(vals)]
        off += len(vals)
        a, b = (sorted(vals), sorted(g)) if kind == "bag" else (vals, g)
        for x, y in zip(a, b):
            if not (abs(x - y) <= 1e-8 + 1e-8 * max(abs(x), abs(y))):
                raise Violation(
                    "residual_value:%s:%s" % (what, "for" if kind == "bag" else "eq"),
                    "%s block %d: got %r expected %r\n%s" % (what, bi, g, vals, text),
                )


def classify_exception_feature(m):
    return sorted(D.features(m) & {"rel:<>", "for_stepped", "slice3"})


def check_case(ctx, case):
    from pymoca import parser
    from pymoca.backends.casadi import generator

    m = case["model"]
    text = D.print_model(m)
    feats = D.features(m)
    tree = guarded(parser.parse, text, bypass_cache=True, where="parse")
    if tree is None:
        raise Violation("valid_text_rejected", "parse returned None:\n" + text)
    try:
        model = guarded(generator.generate, tree, "M", {}, where="generate")
    except Violation as v:
        v.msg += "\n" + text
        raise
    rs = np.random.RandomState(case["seed"])
    done = 0
    for _ in range(6):
        if done >= 3:
            break
        env, der = D.make_env(m, rs)
        try:
            ref = D.residual(m, m["eqs"], env, der)
            iref = D.residual(m, m["ieqs"], env, der)
        except X.Fragile:
            ctx.extra["fragile_points"] += 1
            continue
        f = guarded(lambda: model.dae_residual_function, where="dae_residual_function")
        fi = guarded(lambda: model.initial_residual_function, where="initial_residual_function")
        args = D.model_args(model, env, der, f)
        out = guarded(f.call, args, where="eval")
        got = np.array(out[0], dtype=float) if out else np.zeros(0)
        compare_blocks(ref, got, "dae_residual", text)
        outi = guarded(fi.call, args, where="eval_initial")
        goti = np.array(outi[0], dtype=float) if outi else np.zeros(0)
        compare_blocks(iref, goti, "initial_residual", text)
        done += 1
    if done == 0:
        raise Discard("all points fragile")
    return dict(nontrivial=bool(feats & NT_FEATURES), labels=sorted(feats), sample={"text": text})


def feat_for(ctx):
    relops = list(X.REL_OPS)
    stepped = True
    if ctx is not None and ctx.known("rel_ne"):
        relops.remove("<>")
    if ctx is not None and ctx.known("stepped_range"):
        stepped = False
    return D.Feat(relops=relops, stepped=stepped)


@st.composite
def case_strategy(draw, ctx=None):
    return {"model": draw(D.dae_model(feat_for(ctx))), "seed": draw(st.integers(0, 2**31 - 1))}


def shard(ctx):
    drive(ctx, case_strategy(ctx), check_case, ctx.share(800, 40000))


def replay(ctx, case):
    check_case(ctx, case)


MANIFEST = dict(
    text="Generated flat models covering every form the statement lists are compiled by the CasADi "
    "backend and both residual functions are compared numerically, equation by equation, with a "
    "reference evaluator that interprets the abstract model with Modelica semantics (1-based "
    "inclusive indexing, Boolean encoding as stated).  Sampling of models and of evaluation points.",
    note="Trusts the ~250-line reference semantics in vf/gen/dae.py and vf/gen/expr.py and CasADi's numeric evaluation.",
    technique="property-based differential testing: compiled CasADi residual vs reference interpreter at generated points",
)
