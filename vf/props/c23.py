"""C23 - Out-of-range array subscripts are rejected, never reinterpreted.

One tiny model per case: a single array reference whose constant subscript,
slice bound or for-loop index window is moved around the valid range 1..n,
plus filler equations that keep the rest of the model ordinary.  The verdict
is computed arithmetically from the case (which 1-based elements the
reference selects); pymoca is asked to generate the model:

* selection inside 1..n and the symbol has that rank  -> generate() must
  succeed and dae_residual_function at a drawn point must equal the reference
  residual (vf.gen.dae.residual over explicit, validated element references);
* some selected element outside 1..n, or any subscript on a scalar -> generate()
  must raise (any exception type);
* empty selection, or a stepped slice whose elements are inside but whose stop
  bound overshoots -> the statement demands nothing about acceptance: either
  outcome, but if a model is returned it must select exactly the reference
  elements (nothing, for an empty selection).

Thorough enumerates the whole window for all shapes; quick draws ~3000 cases
of the same space with Hypothesis."""
import itertools
import math

import numpy as np
from hypothesis import strategies as st

from vf.core import Discard, Violation, case_hash, drive, guarded, pymoca_frame, run_one
from vf.gen import dae as D
from vf.gen import expr as X

ID = "C23"
LEVEL = "exploration"
RULE = (
    "arrays Real x[n] (n 1..4), Real A[n,m] (n,m 1..3), scalar Real s; one reference per model: "
    "x[k], A[i,j] with every k/i/j in [-2, dim+2]; sum(x[a:b]), y[1:L] = x[a:b], stepped x[a:st:b] "
    "(st 2, -1), sum(A[a:b,o]), r[1:L] = A[a:b,o] / A[o,a:b] with a,b in [-2, dim+2]; for-loops "
    "`for i in lo:hi` (lo 0..dim+2, optional step 2, empty loop lo:lo-1) over y[i+c2] = x[i+c], "
    "A[i+c,o], A[o,i+c] (c -2..2, o in [0, other+1]) with the tested reference on either side of the "
    "equation and the other array always in range; on a scalar: s[k], s[i,j], sum(s[a:b]), s[i+c] in a "
    "loop.  Integer values are spelled as literals, as differences of positive literals (`1 - 3`) or as "
    "Integer constants.  non-trivial = the reference selects an element outside 1..dim or subscripts a "
    "scalar (generation must fail); distinct = distinct case.  thorough: the full product; quick: "
    "Hypothesis draws (form, index into that form's enumeration)."
)
ASSUMPTIONS = [
    "any exception type from generate() counts as 'fails with an error' (DESIGN 1.3); a returned model for a "
    "must-fail case is the violation",
    "an empty selection (x[3:2], x[1:0], empty for-loop) is not 'reaching outside': accepting or rejecting is "
    "both allowed, but an accepted one must contribute no element",
    "a stepped slice whose selected elements are all inside 1..n while the stop bound overshoots (x[1:2:4], n=3) "
    "may be accepted or rejected; an accepted one must select the reference elements",
    "in-range cases whose text needs a negative literal (only the step -1, spelled `-1` or as a constant "
    "with value -1) may be rejected: pymoca cannot evaluate a unary-minus literal in an integer position "
    "(RuntimeError from get_integer) - an error, not a silent remapping; the `2 - 3` spelling of the same "
    "case must work",
    "for-loop ranges start at >= 0 (a negative loop bound is not a subscript); negative index values are "
    "reached through the offset c",
    "an accepted empty selection from an array with a single element in total is not compared (CasADi keeps "
    "sum() of the 1x0 slice empty, so the equation vanishes; that is sum()'s behaviour, not subscript checking)",
    "A[k] with fewer subscripts than dimensions and row slices consumed through sum() are not generated "
    "(sum() reduces columns only); empty row slices A[o,a:b] have no consumer and are skipped",
    "element order inside one equation as in C11 (column-major, source order); entries of one for-equation "
    "compared as a multiset",
]
SHARDS = {"quick": 16, "thorough": 16}
SOFT_BUDGET_S = {"quick": 200, "thorough": 3000}

WIN = 2
SPELLS = ("lit", "diff", "const")
LITS = ["1.5", "2.5", "0.75", "3.25", "4.5", "1.25", "2.75", "3.5", "0.5", "5.5", "6.25", "7.5"]


def win(d):
    return range(-WIN, d + WIN + 1)


def sel_range(a, st_, b):
    """Elements of the Modelica range a:st:b."""
    return list(range(a, b + (1 if st_ > 0 else -1), st_))


# --------------------------------------------------------------------------
# enumeration of the space (cases are small JSON dicts; no seed inside)
# --------------------------------------------------------------------------
def _space():
    sp = {}
    sp["elem1"] = [dict(form="elem1", n=n, k=k, spell=s) for n in range(1, 5) for k in win(n) for s in SPELLS]
    sp["elem2"] = [
        dict(form="elem2", n=n, m=m, i=i, j=j, spell=s)
        for n in range(1, 4) for m in range(1, 4) for i in win(n) for j in win(m) for s in SPELLS
    ]
    out = []
    for n in range(1, 5):
        for a, b in itertools.product(win(n), win(n)):
            for step in (1, 2, -1):
                ln = len(sel_range(a, step, b))
                for use in ("sum", "copy"):
                    if use == "copy" and not 1 <= ln <= n:
                        continue
                    for s in SPELLS:
                        out.append(dict(form="slice1", n=n, a=a, b=b, st=step, use=use, spell=s))
    sp["slice1"] = out + [dict(c, decl="inferred") for c in out if c["spell"] == "lit"]
    sp["elem1"] += [dict(c, decl="inferred") for c in sp["elem1"] if c["spell"] == "lit"]
    out = []
    for n, m in itertools.product(range(1, 4), range(1, 4)):
        for pos in (0, 1):
            d, other = (n, m) if pos == 0 else (m, n)
            for a, b in itertools.product(win(d), win(d)):
                ln = b - a + 1
                for o in range(1, other + 1):
                    for use in ("sum", "copy"):
                        if use == "sum" and pos == 1:
                            continue
                        if use == "copy" and ln < 1:
                            continue
                        for s in SPELLS:
                            out.append(dict(form="slice2", n=n, m=m, pos=pos, a=a, b=b, o=o, use=use, spell=s))
    sp["slice2"] = out + [dict(c, decl="inferred") for c in out if c["spell"] == "lit"]
    out = []
    for n in range(1, 5):
        for lo in range(0, n + WIN + 1):
            for hi in range(lo - 1, n + WIN + 1):
                for step in (1, 2):
                    if step == 2 and hi - lo < 2:
                        continue
                    for c in range(-2, 3):
                        for side in ("rhs", "lhs"):
                            out.append(dict(form="for1", n=n, lo=lo, hi=hi, st=step, c=c, side=side))
                            if step == 1:
                                # descending subscript (n + 1 + c) - i: index values are not monotone increasing
                                out.append(dict(form="for1", n=n, lo=lo, hi=hi, st=step, c=c, side=side, desc=1))
    sp["for1"] = out
    out = []
    for n, m in itertools.product(range(1, 4), range(1, 4)):
        for pos in (0, 1):
            d, other = (n, m) if pos == 0 else (m, n)
            for lo in range(0, d + WIN + 1):
                for hi in range(lo - 1, d + WIN + 1):
                    for c in range(-2, 3):
                        for o in range(0, other + 2):
                            for side in ("rhs", "lhs"):
                                out.append(dict(form="for2", n=n, m=m, pos=pos, lo=lo, hi=hi, c=c, o=o, side=side))
                                if 1 <= o <= other and side == "rhs":
                                    out.append(dict(form="for2", n=n, m=m, pos=pos, lo=lo, hi=hi, c=c, o=o, side=side, desc=1))
    sp["for2"] = out
    out = []
    for s in SPELLS:
        out += [dict(form="scalar", how="elem", k=k, spell=s) for k in range(-2, 4)]
        out += [dict(form="scalar", how="elem2", k=i, j=j, spell=s) for i in range(0, 3) for j in range(0, 3)]
        out += [dict(form="scalar", how="slice", a=a, b=b, spell=s) for a in range(-2, 4) for b in range(-2, 4)]
    for lo in range(0, 3):
        for hi in range(lo, 3):
            for c in range(-1, 2):
                for side in ("rhs", "lhs"):
                    out.append(dict(form="scalar", how="loop", lo=lo, hi=hi, c=c, side=side))
    sp["scalar"] = out
    return sp


SPACE = _space()
FORMS = ["elem1", "elem2", "slice1", "slice2", "for1", "for2", "scalar"]
# quick-tier weights (relative frequency of the forms among the draws)
WEIGHTS = {"elem1": 2, "elem2": 3, "slice1": 5, "slice2": 4, "for1": 5, "for2": 5, "scalar": 3}
SPACE_SIZE = sum(len(SPACE[f]) for f in FORMS)


# --------------------------------------------------------------------------
# building the model text and the reference equations for one case
# --------------------------------------------------------------------------
class Builder:
    def __init__(self, spell="lit"):
        self.spell = spell
        self.vars = []
        self.consts = {}
        self.lines = []  # (modelica text, reference equation or None)
        self.neg_literal = False
        self.lit_i = 0
        self.inferred_decl = False
        self.inferred = {}  # name -> dims of the arrays declared with ':' dimensions
        self.inferred_vals = {}

    def var(self, name, dims=()):
        if self.inferred_decl and name in ("x", "A") and dims:
            # "parameter Real x[:] = {..}": the dimensions come from the binding value, nothing is filled in later
            self.inferred[name] = list(dims)
            return
        self.vars.append(D.var(name, dims=list(dims)))

    def inferred_value(self, dims):
        if len(dims) == 1:
            return ["arrlit", [["real", self.lit()] for _ in range(dims[0])]]
        return ["arrlit", [["arrlit", [["real", self.lit()] for _ in range(dims[1])]] for _ in range(dims[0])]]

    def num(self, v):
        """Text of the integer v in the case's spelling."""
        if self.spell == "diff":
            return "%d - 3" % (v + 3)
        if v < 0:
            self.neg_literal = True
        if self.spell == "const":
            for name, val in self.consts.items():
                if val == v:
                    return name
            name = "k%d" % (len(self.consts) + 1)
            self.consts[name] = v
            return name
        return str(v)

    def rng(self, a, step, b):
        if step == 1:
            return "%s:%s" % (self.num(a), self.num(b))
        return "%s:%s:%s" % (self.num(a), self.num(step), self.num(b))

    def lit(self):
        v = LITS[self.lit_i % len(LITS)]
        self.lit_i += 1
        return v

    def eq(self, text, ref):
        self.lines.append((text, ref))

    def fill_vec(self, name, n):
        if name in self.inferred:
            return
        vals = [self.lit() for _ in range(n)]
        self.eq("%s = {%s};" % (name, ", ".join(vals)), ["eq", ["arr", name], ["arrlit", [["real", v] for v in vals]]])

    def fill_elems(self, name, idxs):
        for ix in idxs:
            v = self.lit()
            ix = ix if isinstance(ix, tuple) else (ix,)
            self.eq("%s[%s] = %s;" % (name, ",".join(str(i) for i in ix), v), ["eq", ["idx", name] + list(ix), ["real", v]])

    def fill_mat(self, name, n, m):
        if name in self.inferred:
            return
        self.fill_elems(name, [(i, j) for i in range(1, n + 1) for j in range(1, m + 1)])

    def fill_scalar(self, name):
        v = self.lit()
        self.eq("%s = %s;" % (name, v), ["eq", ["var", name], ["real", v]])

    def text(self):
        out = "model M\n"
        for name, val in self.consts.items():
            out += "  constant Integer %s = %d;\n" % (name, val)
        out += "".join(D.print_var(v) for v in self.vars)
        for name, dims in self.inferred.items():
            val = self.inferred_vals.setdefault(name, self.inferred_value(dims))
            out += "  parameter Real %s[%s] = %s;\n" % (name, ",".join(":" for _ in dims), D.pe(val))
        out += "equation\n" + "".join("  " + t + "\n" for t, _ in self.lines) + "end M;\n"
        return out

    def model(self):
        vs = [D.var(n, "Integer", "constant", value=["int", v]) for n, v in self.consts.items()] + self.vars
        for name, dims in self.inferred.items():
            val = self.inferred_vals.setdefault(name, self.inferred_value(dims))
            vs.append(D.var(name, prefix="parameter", dims=dims, value=val))
        return {"name": "M", "vars": vs, "funcs": [], "eqs": [r for _, r in self.lines], "ieqs": []}


def side_of(vals, d):
    lo, hi = min(vals) < 1, max(vals) > d
    return "low+high" if lo and hi else "low" if lo else "high" if hi else ""


def off(c):
    return "i" if c == 0 else "i + %d" % c if c > 0 else "i - %d" % -c


def off_e(c):
    i = ["var", "i"]
    return i if c == 0 else ["bin", "+" if c > 0 else "-", i, ["int", abs(c)]]


def elems(name, idxs):
    """Explicit reference selection: array literal of validated element references."""
    return ["arrlit", [["idx", name] + list(ix if isinstance(ix, tuple) else (ix,)) for ix in idxs]]


def slice_verdict(a, step, b, d):
    """-> (verdict, side, labels, selected elements)."""
    sel = sel_range(a, step, b)
    if not sel:
        lab = "empty_in_range" if 1 <= a <= d and 1 <= b <= d else "empty_bounds_outside"
        return "either", "", [lab], sel
    if all(1 <= i <= d for i in sel):
        if 1 <= b <= d:
            return "accept", "", [], sel
        return "either", "", ["stepped_bound_overshoot"], sel
    return "reject", side_of(sel, d), [], sel


def build(case):
    """-> dict(text, model, verdict, form (signature form), side, labels, empty)."""
    f = case["form"]
    B = Builder(case.get("spell", "lit"))
    B.inferred_decl = case.get("decl") == "inferred"
    labels = ["form:" + f]
    if B.inferred_decl:
        labels.append("decl:inferred_size")
    if "spell" in case:
        labels.append("spell:" + case["spell"])
    empty = False
    if f == "elem1":
        n, k = case["n"], case["k"]
        B.var("x", [n]); B.var("s")
        ok = 1 <= k <= n
        B.eq("s = x[%s];" % B.num(k), ["eq", ["var", "s"], ["idx", "x", k]] if ok else None)
        B.fill_vec("x", n)
        verdict, side, form = ("accept" if ok else "reject"), side_of([k], n), "subscript"
        labels += ["n=%d" % n]
    elif f == "elem2":
        n, m, i, j = case["n"], case["m"], case["i"], case["j"]
        B.var("A", [n, m]); B.var("s")
        oki, okj = 1 <= i <= n, 1 <= j <= m
        ok = oki and okj
        B.eq("s = A[%s,%s];" % (B.num(i), B.num(j)), ["eq", ["var", "s"], ["idx", "A", i, j]] if ok else None)
        B.fill_mat("A", n, m)
        verdict, form = ("accept" if ok else "reject"), "subscript"
        sides = {side_of([i], n), side_of([j], m)} - {""}
        side = "low+high" if len(sides) > 1 else "".join(sides)
        labels += ["shape=%dx%d" % (n, m)] + (["outside:row"] if not oki else []) + (["outside:col"] if not okj else [])
    elif f == "slice1":
        n, a, b, step, use = case["n"], case["a"], case["b"], case["st"], case["use"]
        verdict, side, extra, sel = slice_verdict(a, step, b, n)
        empty = not sel
        labels += extra + ["n=%d" % n, "step=%d" % step, "use:" + use]
        form = "slice" if step == 1 else "slice_step2" if step == 2 else "slice_negstep"
        B.var("x", [n])
        ref_ok = verdict != "reject"
        if use == "sum":
            B.var("s")
            B.eq("s = sum(x[%s]);" % B.rng(a, step, b), ["eq", ["var", "s"], ["sum", elems("x", sel)]] if ref_ok else None)
        else:
            ln = len(sel)
            B.var("y", [n])
            B.eq("y[1:%d] = x[%s];" % (ln, B.rng(a, step, b)),
                 ["eq", elems("y", range(1, ln + 1)), elems("x", sel)] if ref_ok else None)
            B.fill_elems("y", range(ln + 1, n + 1))
        B.fill_vec("x", n)
    elif f == "slice2":
        n, m, pos, a, b, o, use = (case[k] for k in ("n", "m", "pos", "a", "b", "o", "use"))
        d = n if pos == 0 else m
        verdict, side, extra, sel = slice_verdict(a, 1, b, d)
        empty = not sel
        form = "slice_rows" if pos == 0 else "slice_cols"
        labels += extra + ["shape=%dx%d" % (n, m), "use:" + use]
        B.var("A", [n, m])
        sub = "%s,%d" % (B.rng(a, 1, b), o) if pos == 0 else "%d,%s" % (o, B.rng(a, 1, b))
        idxs = [(i, o) if pos == 0 else (o, i) for i in sel]
        ref_ok = verdict != "reject"
        if use == "sum":
            B.var("s")
            B.eq("s = sum(A[%s]);" % sub, ["eq", ["var", "s"], ["sum", elems("A", idxs)]] if ref_ok else None)
        else:
            ln = len(sel)
            size = max(d, ln)
            B.var("r", [size])
            B.eq("r[1:%d] = A[%s];" % (ln, sub), ["eq", elems("r", range(1, ln + 1)), elems("A", idxs)] if ref_ok else None)
            B.fill_elems("r", range(ln + 1, size + 1))
        B.fill_mat("A", n, m)
    elif f in ("for1", "for2"):
        lo, hi, c, sd = case["lo"], case["hi"], case["c"], case["side"]
        step = case.get("st", 1)
        vals = sel_range(lo, step, hi)
        empty = not vals
        desc = case.get("desc", 0)
        if f == "for1":
            n = d = case["n"]
            K = n + 1 + c
            ot, oe = (off(c), off_e(c)) if not desc else ("%d - i" % K, ["bin", "-", ["int", K], ["var", "i"]])
            name, sub, sub_e, form = "x", ot, [oe], "for_index"
            const_ok = True
            B.var("x", [n])
            labels += ["n=%d" % n]
        else:
            n, m, pos, o = case["n"], case["m"], case["pos"], case["o"]
            d, other = (n, m) if pos == 0 else (m, n)
            K = d + 1 + c
            ot, oe = (off(c), off_e(c)) if not desc else ("%d - i" % K, ["bin", "-", ["int", K], ["var", "i"]])
            name, form = "A", "for_index_rows" if pos == 0 else "for_index_cols"
            sub = "%s,%d" % (ot, o) if pos == 0 else "%d,%s" % (o, ot)
            sub_e = [oe, ["int", o]] if pos == 0 else [["int", o], oe]
            const_ok = 1 <= o <= other
            B.var("A", [n, m])
            labels += ["shape=%dx%d" % (n, m)]
        idx_vals = [i + c for i in vals] if not desc else [K - i for i in vals]
        if desc:
            labels.append("descending_index")
        ysize = max(1, hi - lo + 1)
        c2 = 1 - lo
        B.var("y", [ysize])
        tested, fixed = "%s[%s]" % (name, sub), "y[%s]" % off(c2)
        te, fe = ["idxe", name] + sub_e, ["idxe", "y", off_e(c2)]
        loop_ok = all(1 <= v <= d for v in idx_vals)
        if empty:
            verdict, side = "either", ""
            labels.append("empty_loop" + ("" if const_ok else "_const_outside"))
        elif loop_ok and const_ok:
            verdict, side = "accept", ""
        else:
            verdict = "reject"
            side = side_of(idx_vals, d) if not loop_ok else ""
            if not const_ok:
                # a constant subscript next to the loop subscript is out of range
                form = "subscript_in_loop" if loop_ok else form
                side = side if not loop_ok else side_of([o], other)
                labels.append("outside:const_in_loop")
            if not loop_ok:
                labels.append("outside:loop_index")
        labels += ["eqside:" + sd, "c=%d" % c] + (["step=2"] if step == 2 else []) + (["direct_index"] if c == 0 else [])
        l, r, le, re_ = (fixed, tested, fe, te) if sd == "rhs" else (tested, fixed, te, fe)
        rng = "%d:%d" % (lo, hi) if step == 1 else "%d:%d:%d" % (lo, step, hi)
        ref = ["for", "i", lo, hi, None if step == 1 else step, [["eq", le, re_]]] if verdict != "reject" else None
        B.eq("for i in %s loop %s = %s; end for;" % (rng, l, r), ref)
        covered = {i + c2 for i in vals}
        B.fill_elems("y", [j for j in range(1, ysize + 1) if j not in covered])
        if f == "for1":
            B.var("z", [d])
            B.eq("z = x;", ["eq", ["arr", "z"], ["arr", "x"]])
        else:
            B.var("s")
            B.eq("s = A[1,1];", ["eq", ["var", "s"], ["idx", "A", 1, 1]])
    elif f == "scalar":
        how = case["how"]
        verdict = "reject"
        labels.append("scalar:" + how)
        B.var("s"); B.var("s2")
        if how == "elem":
            form, side = "scalar_subscript", "low" if case["k"] <= 0 else "high"
            B.eq("s2 = s[%s];" % B.num(case["k"]), None)
        elif how == "elem2":
            form, side = "scalar_subscript", "low" if min(case["k"], case["j"]) <= 0 else "high"
            B.eq("s2 = s[%s,%s];" % (B.num(case["k"]), B.num(case["j"])), None)
        elif how == "slice":
            form, side = "scalar_slice", "low" if case["a"] <= 0 else "high"
            B.eq("s2 = sum(s[%s]);" % B.rng(case["a"], 1, case["b"]), None)
        else:
            lo, hi, c, sd = case["lo"], case["hi"], case["c"], case["side"]
            form, side = "scalar_for_index", "low" if lo + c <= 0 else "high"
            ysize = hi - lo + 1
            B.var("y", [ysize])
            tested, fixed = "s[%s]" % off(c), "y[%s]" % off(1 - lo)
            l, r = (fixed, tested) if sd == "rhs" else (tested, fixed)
            B.eq("for i in %d:%d loop %s = %s; end for;" % (lo, hi, l, r), None)
            labels += ["eqside:" + sd] + (["direct_index"] if c == 0 else [])
        B.fill_scalar("s")
    else:
        raise ValueError(f)
    labels += ["verdict:" + verdict] + (["side:" + side] if side and verdict == "reject" else [])
    return dict(text=B.text(), model=B.model(), verdict=verdict, form=form, side=side, labels=labels,
                empty=empty, neg_literal=B.neg_literal, consts=dict(B.consts),
                single=case.get("n", 1) * case.get("m", 1) == 1)


# --------------------------------------------------------------------------
# oracle
# --------------------------------------------------------------------------
def compare(blocks, got):
    got = list(np.array(got, dtype=float).reshape(-1))
    total = sum(len(b[1]) for b in blocks)
    if total != len(got):
        return "residual has %d entries, reference %d" % (len(got), total)
    offp = 0
    for bi, (kind, vals) in enumerate(blocks):
        g = got[offp: offp + len(vals)]
        offp += len(vals)
        a, b = (sorted(vals), sorted(g)) if kind == "bag" else (vals, g)
        for x, y in zip(a, b):
            if not (abs(x - y) <= 1e-9 + 1e-9 * max(abs(x), abs(y))):
                return "equation %d: got %r expected %r" % (bi, [round(v, 6) for v in g], [round(v, 6) for v in vals])
    return None


def check_case(ctx, case):
    from pymoca import parser
    from pymoca.backends.casadi import generator

    b = build(case)
    text, verdict, form = b["text"], b["verdict"], b["form"]
    labels = list(b["labels"])
    tree = guarded(parser.parse, text, bypass_cache=True, where="parse")
    if tree is None:
        raise Violation("valid_text_rejected", "parse returned None:\n" + text)
    err = model = None
    try:
        model = generator.generate(tree, "M", {})
    except Exception as e:  # noqa: BLE001 - 'fails with an error' is an outcome here
        if pymoca_frame(e) == "?":
            raise
        err = e
    if verdict == "reject":
        if err is None:
            raise Violation("accepted_out_of_range:%s:%s" % (form, b["side"]),
                            "generate() returned a model for an out-of-range reference\n" + text)
        labels.append("rejected_by:" + type(err).__name__)
        return dict(nontrivial=True, labels=labels, sample={"text": text, "error": "%s: %s" % (type(err).__name__, str(err)[:120])})
    if err is not None:
        if isinstance(err, NotImplementedError):
            raise Discard("NotImplementedError:" + pymoca_frame(err))
        if verdict == "either":
            labels.append("either:rejected")
            return dict(nontrivial=False, labels=labels)
        if b["neg_literal"]:
            labels.append("neg_literal_rejected")
            return dict(nontrivial=False, labels=labels)
        raise Violation("rejected_in_range:%s" % form,
                        "%s@%s: %s\n%s" % (type(err).__name__, pymoca_frame(err), str(err)[:200], text))
    if verdict == "either":
        labels.append("either:accepted")
    if b["empty"] and b["single"]:
        # CasADi has no 1-element vectors: x[1] is a 1x1 MX, its empty slice is 1x0 and sum1() of that stays
        # empty, so the whole equation vanishes.  That is sum()'s business, not subscript checking.
        labels.append("empty_selection_of_single_element_array_not_compared")
        return dict(nontrivial=False, labels=labels)
    m = b["model"]
    rs = np.random.RandomState(case["seed"])
    env, der = D.make_env(m, rs)
    for name, val in b["consts"].items():
        env[name] = float(val)
    try:
        ref = D.residual(m, m["eqs"], env, der)
    except X.Fragile as e:
        raise Discard("fragile reference point: %s" % e)
    f = guarded(lambda: model.dae_residual_function, where="dae_residual_function")
    args = D.model_args(model, env, der, f)
    out = guarded(f.call, args, where="eval")
    got = np.array(out[0], dtype=float) if out else np.zeros(0)
    bad = compare(ref, got)
    if bad:
        kind = "wrong_elements_empty_selection" if b["empty"] else "wrong_elements_in_range"
        raise Violation("%s:%s" % (kind, form), bad + "\n" + text)
    return dict(nontrivial=False, labels=labels)


def seed_for(ctx, form, idx):
    return int(case_hash([ctx.seed, form, idx]), 16) % (2**31 - 1)


def with_seed(ctx, form, idx):
    c = dict(SPACE[form][idx])
    c["seed"] = seed_for(ctx, form, idx)
    return c


def scramble(form, idx, seed):
    """Seed-dependent permutation of a form's enumeration: Hypothesis prefers small integers, which would
    otherwise be the smallest shapes at the start of the product."""
    n = len(SPACE[form])
    mult = next(p for p in (7919, 104729, 1299709) if math.gcd(p, n) == 1)
    return (idx * mult + seed * 7) % n


@st.composite
def case_strategy(draw, ctx):
    form = draw(st.sampled_from([f for f in FORMS for _ in range(WEIGHTS[f])]))
    idx = draw(st.integers(0, len(SPACE[form]) - 1))
    return with_seed(ctx, form, scramble(form, idx, ctx.seed))


def shard(ctx):
    if ctx.tier == "quick":
        drive(ctx, case_strategy(ctx), check_case, ctx.share(3000, 0))
        return
    if ctx.shard == 0:
        ctx.extra["space_size"] = SPACE_SIZE
    g = 0
    for form in FORMS:
        for idx in range(len(SPACE[form])):
            g += 1
            if g % ctx.nshards != ctx.shard:
                continue
            if ctx.over_budget():
                continue
            run_one(ctx, check_case, with_seed(ctx, form, idx))
            ctx.extra["enumerated"] += 1


def replay(ctx, case):
    check_case(ctx, case)


def coverage_extra(tier, cov):
    c = cov.get("counters", {})
    done = tier == "thorough" and c.get("space_size") and c.get("enumerated") == c.get("space_size")
    return {"exhaustive": bool(done), "space_size": SPACE_SIZE}


MANIFEST = dict(
    text="Bounded-exhaustive (thorough) / sampled (quick) sweep of every constant subscript, slice bound and "
    "for-loop index window around the valid range for all small 1-D and 2-D shapes and for scalars.  A case "
    "whose reference selects an element outside 1..n, or subscripts a scalar, must make generate() raise; a "
    "case inside must generate and the compiled DAE residual must contain exactly the elements a 1-based, "
    "inclusive reference selects (numeric comparison at a drawn point with pairwise distinct element values).",
    note="Trusts the arithmetic in-range classification in this module (range() over the case's integers), the "
    "reference evaluator of vf/gen/dae.py on explicit element references, and CasADi's numeric evaluation.",
    technique="bounded-exhaustive enumeration + Hypothesis sampling; differential check of the compiled residual vs reference selection",
)
