"""C20 - The model cache is never used when stale.

One machine = one model folder + one library folder (with nested
sub-directories).  The harness rewrites/adds .mo files under a logical clock
(os.utime with ns precision, steps from 3 ms to 10 s, strictly later than everything before; the cache file
is re-pinned to the next tick after every save, so file-system timestamp
granularity never matters), toggles the compiler options that load_model
compares, changes the pymoca version, and calls transfer_model in cache or
codegen mode.

Oracle (after every transfer): the returned model equals
api._compile_model() of a copy of the current sources in a separate folder
that never holds a cache file, with the options transfer_model itself
compiles with (defaults merged, expand_mx forced on in cache mode).  The
comparison is vf.canon.compare_models (names/order/types/alias relation,
attribute values at drawn parameter values, the four functions at drawn
points).  Whether the cache *should* have been used is never asserted - only
equality, as the statement says; hits/recompiles are classified for the
evidence.
"""
import gc
import os
import shutil

import hypothesis
from hypothesis import strategies as st
from hypothesis.stateful import RuleBasedStateMachine, initialize, rule, run_state_machine_as_test

from vf import env
from vf.core import Discard, Violation, as_violation, case_hash, hsettings

ID = "C20"
LEVEL = "exploration"
RULE = (
    "rule-based machines over one model folder (M.mo [+ MBase.mo, Other.mo]) and one library "
    "folder (Lib1.mo, sub/Lib2.mo [+ sub/deep/Lib3.mo, Extra.mo, sub/Unused.mo]); steps = init "
    "(drawn option set / version / file variants), rewrite(file, variant), add(file, variant), "
    "option(key, toggled value), option_value(eliminable_variable_expression, None or one of 3 patterns), version(v), transfer(cache|codegen); one evaluation = one "
    "transfer compared with a cache-free compile of the current sources.  non-trivial = the "
    "transfer found a cache file written by an earlier transfer of the same history and at least "
    "one edit/addition/option/version/mode change happened since that file was written (a stale "
    "cache existed when transfer_model was called); distinct = distinct history prefix (rule "
    "names + arguments) ending in that transfer."
)
ASSUMPTIONS = [
    "the reference is api._compile_model on a copy of the sources in a folder without cache file: "
    "compilation itself (parser, flattening, generator, simplify) is trusted to be deterministic; "
    "only load_model/save_model/transfer_model's decision and round trip are under test",
    "modification times are set explicitly (os.utime, logical clock with steps between 3 ms and 10 s): every edit is "
    "strictly later than the cache file, as the statement requires; equal or earlier mtimes are "
    "outside the property",
    "a version change is made observable by the harness: while the check runs, api._compile_model "
    "is wrapped so that every compile (transfer_model's and the reference's) stamps the model with "
    "the api.__version__ it ran under (one string parameter, carried by save_model/load_model like "
    "any other); with a single source tree all versions would otherwise compile alike and serving "
    "a cache written by another version could not differ from a fresh compile",
    "library_folders and mtime_check are not varied (the code documents the first as deliberately "
    "unchecked; the second is the user opting out); files are never deleted or renamed",
    "codegen: the model returned by the previous transfer is dropped (and garbage-collected) "
    "before the next call - a live CachedModel keeps its shared libraries dlopen'ed and the "
    "dynamic loader then hands the old library out again for the same path, which is a property "
    "of the process, not of the cache (see report)",
    "source variants avoid array variables that carry parameter-dependent attributes and array "
    "parameters (cache round-trip defects of C19's domain) so that this check isolates staleness",
    "check_balanced, unroll_loops and inline_functions have no effect on the compared model for "
    "the drawn sources: a cache reused across a change of those is indistinguishable from a "
    "recompile and is (correctly) not a violation of the statement",
]
SHARDS = {"quick": 16, "thorough": 16}
SOFT_BUDGET_S = {"quick": 150, "thorough": 800}

OPTION_KEYS = [
    "expand_vectors",
    "detect_aliases",
    "replace_constant_values",
    "replace_parameter_expressions",
    "eliminate_constant_assignments",
    "resolve_parameter_values",
    "check_balanced",
    "unroll_loops",
    "inline_functions",
]
REGEXES = [None, "s", "a[.]y", "s|a[.]y"]  # values of eliminable_variable_expression (s and a.y are algebraic variables of M)
# release versions and development versions of one release (same public part, different local part)
VERSIONS = ["1.0", "1.1", "2.0", "1.0+3.gaaaaaaa", "1.0+4.gbbbbbbb"]
MODES = ("cache", "codegen")

# key -> (folder, relative path, number of variants)
FILES = {
    "M": ("model", "M.mo", 8),
    "B": ("model", "MBase.mo", 3),
    "N": ("model", "Other.mo", 3),
    "L1": ("lib", "Lib1.mo", 6),
    "L2": ("lib", "sub/Lib2.mo", 6),
    "L3": ("lib", "sub/deep/Lib3.mo", 4),
    "X": ("lib", "Extra.mo", 3),
    "X2": ("lib", "sub/Unused.mo", 3),
}
INITIAL = ("M", "L1", "L2")
ADDABLE = ("L3", "B", "X", "X2", "N")
BASE_EPOCH = 1_500_000_000
TICK_S = 10


# --------------------------------------------------------------------------
# sources: every variant of a file differs from every other variant of the
# same file in structure or in numbers of the compiled model (except the
# unreferenced files, which by construction cannot matter)
# --------------------------------------------------------------------------
def lib1_text(v):
    k = "2.5" if v == 1 else "2.0"
    start = "1.5" if v == 2 else "1.0"
    coef = "4.0" if v == 3 else "3.0"
    xattr = "start = %s" % start + (", max = 5.0 * k" if v == 5 else "")
    decl = "  Real e;\n" if v == 4 else ""
    eq = "  e = x + 1.0;\n" if v == 4 else ""
    return (
        "model Lib1\n"
        "  parameter Real k = %s;\n"
        "  Real x(%s);\n"
        "  Real y;\n"
        "  Real u;\n"
        "%s"
        "equation\n"
        "  der(x) = -k * x;\n"
        "  y = %s * x;\n"
        "  u = y;\n"
        "%s"
        "end Lib1;\n" % (k, xattr, decl, coef, eq)
    )


def lib2_text(v):
    c = "1.75" if v == 1 else "1.5"
    p = "3.0" if v == 2 else "2.0"
    q = "3 * p" if v == 3 else "2 * p"
    z = "4.0" if v == 4 else "3.0"
    n = 3 if v == 5 else 2
    eq = "  v[3] = p - z;\n" if v == 5 else ""
    return (
        "model Lib2\n"
        "  constant Real c = %s;\n"
        "  parameter Real p = %s;\n"
        "  parameter Real q = %s;\n"
        "  Real v[%d];\n"
        "  Real z;\n"
        "equation\n"
        "  v[1] = c * p;\n"
        "  v[2] = q + z;\n"
        "  z = %s;\n"
        "%s"
        "end Lib2;\n" % (c, p, q, n, z, eq)
    )


def lib3_text(v):
    fc = "2.5" if v == 1 else "2.0"
    loop = "(i + 1) * g" if v == 2 else "i * g"
    decl = "  Real t;\n" if v == 3 else ""
    eq = "  t = g - 1.0;\n" if v == 3 else ""
    return (
        "function f3\n"
        "  input Real a;\n"
        "  output Real b;\n"
        "algorithm\n"
        "  b := %s * a + 1.0;\n"
        "end f3;\n"
        "\n"
        "model Lib3\n"
        "  Real w[3];\n"
        "  Real g;\n"
        "%s"
        "equation\n"
        "  for i in 1:3 loop\n"
        "    w[i] = %s;\n"
        "  end for;\n"
        "  g = f3(time);\n"
        "%s"
        "end Lib3;\n" % (fc, decl, loop, eq)
    )


def mbase_text(v):
    start = "0.75" if v == 1 else "0.5"
    rate = "2.0" if v == 2 else "1.0"
    return (
        "model MBase\n"
        "  Real h(start = %s);\n"
        "equation\n"
        "  der(h) = -%s * h;\n"
        "end MBase;\n" % (start, rate)
    )


def unused_text(name, v):
    return (
        "model %s\n"
        "  parameter Real r = %d.0;\n"
        "  Real n;\n"
        "equation\n"
        "  n = r * time;\n"
        "end %s;\n" % (name, v + 1, name)
    )


# M variants: (modify a.k, coefficient, extends Lib2 instead of component, uses Lib3, uses MBase)
M_VARIANTS = [
    dict(),
    dict(ka=1),
    dict(coef=1),
    dict(ext2=1),
    dict(l3=1),
    dict(l3=1, ka=1),
    dict(b=1),
    dict(b=1, l3=1, coef=1),
]


def m_requires(v):
    f = M_VARIANTS[v]
    return [k for k, flag in (("L3", "l3"), ("B", "b")) if f.get(flag)]


def m_text(v):
    f = M_VARIANTS[v]
    lines = ["model M"]
    if f.get("b"):
        lines.append("  extends MBase;")
    if f.get("ext2"):
        lines.append("  extends Lib2;")
    lines.append("  Lib1 a(k = 3.0);" if f.get("ka") else "  Lib1 a;")
    if not f.get("ext2"):
        lines.append("  Lib2 b;")
    if f.get("l3"):
        lines.append("  Lib3 c;")
    lines.append("  Real s;")
    lines.append("equation")
    terms = ["2.0 * a.y" if f.get("coef") else "a.y", "v[1]" if f.get("ext2") else "b.v[1]"]
    if f.get("l3"):
        terms.append("c.w[2]")
    if f.get("b"):
        terms.append("h")
    lines.append("  s = %s;" % " + ".join(terms))
    lines.append("end M;")
    return "\n".join(lines) + "\n"


def file_text(key, v):
    if key == "M":
        return m_text(v)
    if key == "L1":
        return lib1_text(v)
    if key == "L2":
        return lib2_text(v)
    if key == "L3":
        return lib3_text(v)
    if key == "B":
        return mbase_text(v)
    if key == "X":
        return unused_text("Extra", v)
    if key == "X2":
        return unused_text("Unused", v)
    if key == "N":
        return unused_text("Other", v)
    raise env.HarnessError("unknown file key %r" % (key,))


def file_category(key):
    folder, rel, _ = FILES[key]
    if folder == "model":
        return "model"
    return "lib_nested" if "/" in rel else "lib"


STAMP_NAME = "compiled_by_pymoca_version"


class VersionStampedCompiler:
    """A pymoca version change means 'the compiler may produce something
    else'; with one source tree under test every version would compile alike and
    a cache reused across a version change could never differ from a fresh
    compile.  While active, api._compile_model is wrapped so that each compile
    stamps its model with the api.__version__ it ran under (one extra string
    parameter, which save_model/load_model carry like any other) - for
    transfer_model and for the reference alike."""

    def __init__(self):
        self.api = None
        self.orig = None

    def __enter__(self):
        from pymoca.backends.casadi import api
        from pymoca.backends.casadi.model import StringVariable

        if getattr(api._compile_model, "_c20_stamp", False):
            raise env.HarnessError("version stamp installed twice")
        self.api, self.orig = api, api._compile_model
        orig = self.orig

        def _compile_model(model_folder, model_name, compiler_options):
            model = orig(model_folder, model_name, compiler_options)
            sv = StringVariable(STAMP_NAME)
            sv.value = api.__version__
            model.string_parameters.append(sv)
            return model

        _compile_model._c20_stamp = True
        api._compile_model = _compile_model
        return self

    def __exit__(self, *a):
        self.api._compile_model = self.orig
        return False


STALE_PRIORITY = [
    "edit_lib_nested", "edit_lib", "edit_model",
    "add_lib_nested", "add_lib", "add_model",
    "option", "version", "mode",
]


# --------------------------------------------------------------------------
# history executor (shared by the machine and by replay)
# --------------------------------------------------------------------------
class Sim:
    def __init__(self, ctx, memo, budget):
        from pymoca.backends.casadi import api

        self.api = api
        self.ctx = ctx
        self.memo = memo
        self.budget = budget
        self.root = env.fresh_dir("c20")
        self.model_dir = self.root / "model"
        self.lib_dir = self.root / "lib"
        self.model_dir.mkdir()
        self.lib_dir.mkdir()
        self.cache_file = self.model_dir / "M.pymoca_cache"
        self.files = {}        # key -> variant currently on disk
        self.opts = {}         # option overrides handed to transfer_model
        self.version = VERSIONS[0]
        self.tick = 0
        self.hist = []
        self.cache = None      # snapshot taken when the cache file was last written
        self.pinned_ns = None
        self.since_save = []   # stale reasons accumulated since the cache file was written
        self.since_transfer = set()  # step kinds since the previous transfer (labels)
        self.codegen_left = ctx.pick(1, 2)
        self.had_nontrivial = False
        self.started = False

    # ---- bookkeeping -------------------------------------------------
    def close(self):
        shutil.rmtree(self.root, ignore_errors=True)

    # "a later modification time" may be later by a fraction of a second: steps of the logical
    # clock alternate between milliseconds and seconds (kept in integer nanoseconds)
    STEPS_NS = (50_000_000, 10_000_000_000, 400_000_000, 3_000_000, 2_500_000_000, 900_000_000)

    def now(self):
        self.tick += 1
        self.t_ns = getattr(self, "t_ns", BASE_EPOCH * 1_000_000_000) + self.STEPS_NS[self.tick % len(self.STEPS_NS)]
        return self.t_ns

    def path(self, key):
        folder, rel, _ = FILES[key]
        return (self.model_dir if folder == "model" else self.lib_dir) / rel

    def write(self, key, variant):
        p = self.path(key)
        p.parent.mkdir(parents=True, exist_ok=True)
        p.write_text(file_text(key, variant))
        t = self.now()
        os.utime(p, ns=(t, t))
        self.files[key] = variant

    def eligible_m(self):
        return [v for v in range(len(M_VARIANTS)) if all(r in self.files for r in m_requires(v))]

    def merged(self, mode):
        """The options transfer_model compiles with (mirrors its preamble)."""
        from pymoca.backends.casadi._options import _merge_default_options

        o = dict(self.opts)
        o["library_folders"] = [str(self.lib_dir)]
        o[mode] = True
        o = _merge_default_options(o)
        if o["cache"] and not o["codegen"]:
            o["expand_mx"] = True
        return o

    def user_options(self, mode):
        o = dict(self.opts)
        o["library_folders"] = [str(self.lib_dir)]
        o[mode] = True
        return o

    @staticmethod
    def opt_key(merged):
        return tuple(sorted((k, repr(v)) for k, v in merged.items() if k != "library_folders"))

    def stale_reasons(self, mode):
        if self.cache is None:
            return None
        out = list(self.since_save)
        cur = self.merged(mode)
        old = self.cache["opts"]
        mode_keys = ("cache", "codegen", "expand_mx")
        if any(cur[k] != old[k] for k in mode_keys):
            out.append("mode")
        for k in sorted(cur):
            if k not in mode_keys and k != "library_folders" and cur[k] != old[k]:
                out.append("option:" + k)
        if self.version != self.cache["version"]:
            out.append("version")
        return out

    # ---- reference ---------------------------------------------------
    def reference(self, mode):
        merged = self.merged(mode)
        key = (tuple(sorted(self.files.items())), self.opt_key(merged), self.version)
        if key in self.memo:
            self.ctx.extra["reference_memo_hits"] += 1
            return self.memo[key]
        ref_root = env.fresh_dir("c20ref")
        try:
            ignore = shutil.ignore_patterns("*.pymoca_cache", "*.so", "*.c", "*.o", "*.dll")
            shutil.copytree(self.model_dir, ref_root / "model", ignore=ignore)
            shutil.copytree(self.lib_dir, ref_root / "lib", ignore=ignore)
            if (ref_root / "model" / "M.pymoca_cache").exists():
                raise env.HarnessError("reference folder holds a cache file")
            ropts = dict(merged)
            ropts["library_folders"] = [str(ref_root / "lib")]
            model = self.api._compile_model(str(ref_root / "model"), "M", ropts)
        finally:
            shutil.rmtree(ref_root, ignore_errors=True)
        if not getattr(self.api._compile_model, "_c20_stamp", False):
            raise env.HarnessError("version stamp not installed")
        self.ctx.extra["reference_compiles"] += 1
        self.memo[key] = model
        return model

    # ---- steps -------------------------------------------------------
    def do(self, step):
        """Execute one history step.  Returns info dict for transfers."""
        kind = step[0]
        if kind != "init" and not self.started:
            self.do(["init", {"opts": [], "version": VERSIONS[0], "variants": {}}])
            self.hist.pop()
        self.hist.append(step)
        if kind == "init":
            if self.started:
                raise env.HarnessError("init twice")
            self.started = True
            spec = step[1]
            for k in spec.get("opts", []):
                self.opts[k] = not self._default(k)
            self.version = spec.get("version", VERSIONS[0])
            env.pin_version(self.version)
            for key in INITIAL:
                self.write(key, int(spec.get("variants", {}).get(key, 0)))
            if m_requires(self.files["M"]):
                raise env.HarnessError("initial M references a file that does not exist")
            return None
        if kind in ("rewrite", "add"):
            _, key, variant = step
            exists = key in self.files
            if exists != (kind == "rewrite"):
                raise env.HarnessError("%s of %s: exists=%s" % (kind, key, exists))
            if key == "M" and variant not in self.eligible_m():
                raise env.HarnessError("M variant %d references a missing file" % variant)
            self.write(key, variant)
            self.since_save.append(("edit_" if kind == "rewrite" else "add_") + file_category(key))
            self.since_transfer.add(kind)
            self.since_transfer.add("%s:%s" % (kind, key))
            return None
        if kind == "option":
            _, k, val = step
            if k not in OPTION_KEYS:
                raise env.HarnessError("option %r is not in the domain" % (k,))
            self.opts[k] = bool(val)
            self.since_transfer.add("option")
            return None
        if kind == "option_value":
            # a string-valued option: which variables simplify() eliminates (needs expand_mx, kept on from here)
            _, k, val = step
            if k != "eliminable_variable_expression" or val not in REGEXES:
                raise env.HarnessError("option value %r=%r is not in the domain" % (k, val))
            self.opts[k] = val
            self.opts["expand_mx"] = True
            self.since_transfer.add("option")
            return None
        if kind == "version":
            self.version = step[1]
            env.pin_version(self.version)
            self.since_transfer.add("version")
            return None
        if kind == "transfer":
            return self.transfer(step[1])
        raise env.HarnessError("unknown step %r" % (step,))

    def _default(self, k):
        from pymoca.backends.casadi._options import _get_default_options

        return _get_default_options()[k]

    def transfer(self, mode):
        api = self.api
        if mode not in MODES:
            raise env.HarnessError("mode %r" % (mode,))
        env.pin_version(self.version)  # api may have been imported after the last pin
        if api.__version__ != self.version:
            raise env.HarnessError("version patch did not reach api")
        stale = self.stale_reasons(mode)
        had_cache = self.cache_file.exists()
        if had_cache != (self.cache is not None):
            raise env.HarnessError("cache file bookkeeping out of sync")
        if had_cache and os.stat(self.cache_file).st_mtime_ns != self.pinned_ns:
            raise env.HarnessError("cache file mtime changed behind the harness's back")
        if mode == "codegen":
            gc.collect()
        seed = int(case_hash(self.hist), 16) % (2**31)
        raised = None
        result = None
        try:
            result = api.transfer_model(str(self.model_dir), "M", self.user_options(mode))
        except Exception as e:  # noqa: BLE001 - classified below
            raised = e
        try:
            ref = self.reference(mode)
        except Exception as e:  # noqa: BLE001
            if raised is not None and type(raised) is type(e):
                raise Discard("both_raise:" + type(e).__name__)
            raise env.HarnessError("reference compile failed (invalid source variant?): %r" % (e,)) from e
        if raised is not None:
            v = as_violation(raised, "transfer")
            v.labels = tuple(stale or ())
            raise v
        cached = isinstance(result, api.CachedModel)
        if not isinstance(result, api.Model):
            raise Violation("result_type", "transfer_model returned %r" % (type(result),))
        what = "transfer(%s) after %r" % (mode, self.hist[-4:-1])
        try:
            from vf.canon import compare_models

            compare_models(ref, result, seed, what)
        except Violation as v:
            if cached and stale:
                cats = {r.split(":")[0] for r in stale}
                first = [c for c in STALE_PRIORITY if c in cats][0]
                raise Violation(
                    "stale_cache_used:" + first,
                    "cache written before %r was returned: %s" % (stale, v.msg),
                    labels=stale,
                )
            if cached:
                raise Violation("cached_model_differs:" + v.kind, v.msg)
            raise Violation("recompiled_model_differs:" + v.kind, v.msg)
        finally:
            result = None
        # was the cache file (re)written?  pin it to the next logical tick
        rewritten = self.cache_file.exists() and os.stat(self.cache_file).st_mtime_ns != self.pinned_ns
        if rewritten:
            t = self.now()
            os.utime(self.cache_file, ns=(t, t))
            self.pinned_ns = os.stat(self.cache_file).st_mtime_ns
            self.cache = {"opts": self.merged(mode), "version": self.version, "files": dict(self.files)}
            self.since_save = []
            if mode == "codegen":
                self.codegen_left -= 1
                self.budget["codegen"] -= 1
                self.ctx.extra["codegen_compiles"] += 1
        if rewritten == cached:
            # not part of the statement (only the returned model is); counted for the evidence
            self.ctx.extra["cache_written_and_CachedModel" if cached else "recompiled_without_saving"] += 1
        labels = ["transfer:" + mode]
        if stale is None:
            labels.append("first_compile")
        elif stale:
            labels.append("stale_cache_present")
            labels.extend(sorted({"stale:" + r.split(":")[0] for r in stale}))
            labels.extend(sorted({"stale:" + r for r in stale if r.startswith("option:")}))
            if len({r.split(":")[0] for r in stale}) == 1:
                labels.append("single_cause")
            if cached:
                # equal although stale: the change was not observable (or reverted)
                labels.append("stale_but_cache_hit_equal")
        else:
            labels.append("valid_cache_present")
            if not cached:
                labels.append("valid_cache_recompiled")
        labels.append("result:CachedModel" if cached else "result:recompiled")
        if mode == "codegen":
            labels.append("codegen:CachedModel" if cached else "codegen:compiled")
        labels.extend(sorted("after:" + k for k in self.since_transfer))
        self.since_transfer = set()
        nontrivial = bool(stale)
        self.had_nontrivial = self.had_nontrivial or nontrivial
        return dict(nontrivial=nontrivial, labels=labels, cached=cached, stale=stale)


# --------------------------------------------------------------------------
# the machine
# --------------------------------------------------------------------------
def make_machine(ctx, memo, budget):
    class Machine(RuleBasedStateMachine):
        def __init__(self):
            super().__init__()
            self.sim = Sim(ctx, memo, budget)
            self.dead = False
            ctx.extra["machines"] += 1

        # -- plumbing ----------------------------------------------------
        def _do(self, step):
            if self.dead:
                return
            if ctx.over_budget():
                self.dead = True
                return
            sim = self.sim
            try:
                info = sim.do(step)
            except Violation as v:
                self.dead = True
                ctx.evaluations += 1
                ctx.fail(v, {"steps": list(sim.hist)}, labels=v.labels)
                return
            except Discard as d:
                self.dead = True
                ctx.discard(d.reason)
                return
            ctx.extra["step:" + step[0]] += 1
            if info is not None:
                case = {"steps": [s for s in sim.hist]}
                ctx.record(case, info["nontrivial"], labels=info["labels"], sample=case)

        # -- rules -------------------------------------------------------
        @initialize(
            opts=st.sets(st.sampled_from(OPTION_KEYS), max_size=4),
            version=st.sampled_from(VERSIONS),
            v1=st.integers(0, FILES["L1"][2] - 1),
            v2=st.integers(0, FILES["L2"][2] - 1),
            vm=st.integers(0, 3),
        )
        def init(self, opts, version, v1, v2, vm):
            self._do(["init", {"opts": [k for k in OPTION_KEYS if k in opts], "version": version,
                               "variants": {"M": vm, "L1": v1, "L2": v2}}])

        def _rewrite(self, key, variant):
            sim = self.sim
            if key == "M":
                el = sim.eligible_m()
                v = el[variant % len(el)]
                if v == sim.files["M"]:
                    v = el[(variant + 1) % len(el)]
            else:
                n = FILES[key][2]
                v = variant % n
                if v == sim.files[key]:
                    v = (v + 1) % n
            self._do(["rewrite", key, v])

        @rule(fi=st.integers(0, 15), variant=st.integers(0, 7))
        def rewrite(self, fi, variant):
            if self.dead:
                return
            existing = list(self.sim.files)
            self._rewrite(existing[fi % len(existing)], variant)

        @rule(variant=st.integers(0, 7))
        def rewrite_nested(self, variant):
            """An edit below a sub-directory of the library folder."""
            if self.dead:
                return
            nested = [k for k in self.sim.files if file_category(k) == "lib_nested"]
            self._rewrite(nested[variant % len(nested)], variant // 2)

        @rule(fi=st.integers(0, 9), variant=st.integers(0, 7), then_ref=st.booleans())
        def add(self, fi, variant, then_ref):
            if self.dead:
                return
            sim = self.sim
            missing = [k for k in ADDABLE if k not in sim.files]
            if not missing:
                return
            key = missing[fi % len(missing)] if fi < 6 else missing[0]
            self._do(["add", key, variant % FILES[key][2]])
            if then_ref and key in ("L3", "B") and not self.dead:
                # the new file becomes referenced by a rewrite of M
                cand = [v for v in sim.eligible_m() if key in m_requires(v) and v != sim.files["M"]]
                self._do(["rewrite", "M", cand[variant % len(cand)]])

        @rule(k=st.sampled_from(OPTION_KEYS), then_transfer=st.booleans())
        def set_option(self, k, then_transfer):
            if self.dead:
                return
            cur = self.sim.opts.get(k, self.sim._default(k))
            self._do(["option", k, not cur])
            if then_transfer:
                self._transfer("cache")

        @rule(val=st.sampled_from(REGEXES), then_transfer=st.booleans())
        def set_regex(self, val, then_transfer):
            """eliminable_variable_expression: None or one of three patterns (two non-empty ones differ)."""
            if self.dead:
                return
            if val == self.sim.opts.get("eliminable_variable_expression"):
                val = REGEXES[(REGEXES.index(val) + 1) % len(REGEXES)]
            self._do(["option_value", "eliminable_variable_expression", val])
            if then_transfer:
                self._transfer("cache")

        @rule(v=st.integers(0, len(VERSIONS) - 1), then_transfer=st.booleans())
        def set_version(self, v, then_transfer):
            if self.dead:
                return
            new = VERSIONS[v]
            if new == self.sim.version:
                new = VERSIONS[(v + 1) % len(VERSIONS)]
            self._do(["version", new])
            if then_transfer:
                self._transfer("cache")

        def _transfer(self, mode):
            if self.dead:
                return
            sim = self.sim
            if mode == "codegen":
                stale = sim.stale_reasons("codegen")
                will_compile = stale is None or bool(stale)
                if will_compile and (sim.codegen_left <= 0 or budget["codegen"] <= 0):
                    ctx.extra["codegen_demoted_to_cache"] += 1
                    mode = "cache"
            self._do(["transfer", mode])

        @rule(mode=st.sampled_from(["cache"] * 8 + ["codegen"] * 2), again=st.booleans())
        def transfer(self, mode, again):
            if self.dead:
                return
            sim = self.sim
            if again and sim.cache is not None and sim.cache["opts"]["codegen"] and not sim.stale_reasons("codegen"):
                mode = "codegen"  # a valid code-generated cache exists: load it (no gcc run)
            self._transfer(mode)

        @rule()
        def transfer_cache(self):
            self._transfer("cache")

        def teardown(self):
            sim = self.sim
            try:
                if not self.dead and sim.started and sim.hist and sim.hist[-1][0] != "transfer":
                    # every history ends with an oracle check
                    self._do(["transfer", "cache"])
                if not self.dead and sim.had_nontrivial:
                    ctx.extra["machines_with_nontrivial_transfer"] += 1
            finally:
                sim.close()

    return Machine


def shard(ctx):
    env.pin_version(VERSIONS[0])
    from pymoca.backends.casadi import api  # noqa: F401 - pin_version must reach api.__version__

    env.pin_version(VERSIONS[0])
    memo = {}
    budget = {"codegen": ctx.pick(1, 10**9)}
    n = ctx.share(320, 6000)
    M = make_machine(ctx, memo, budget)
    try:
        with VersionStampedCompiler():
            run_state_machine_as_test(
                hypothesis.seed(ctx.hseed)(M), settings=hsettings(n, stateful_steps=ctx.pick(10, 20))
            )
    finally:
        env.pin_version()


def replay(ctx, case):
    env.pin_version(VERSIONS[0])
    from pymoca.backends.casadi import api  # noqa: F401

    sim = Sim(ctx, {}, {"codegen": 10**9})
    sim.codegen_left = 10**9
    try:
        with VersionStampedCompiler():
            for step in case["steps"]:
                sim.do(list(step))
    finally:
        sim.close()
        env.pin_version()


MANIFEST = dict(
    text="Stateful search over edit/add/option/version/transfer histories of one model folder and "
    "one library folder (nested sub-directories, referenced and unreferenced files, a file added "
    "and then referenced, option toggled and toggled back, cache<->codegen switches) with "
    "modification times driven by a logical clock; after every transfer_model call the returned "
    "model is compared structurally and numerically with a cache-free compile of the sources as "
    "they are now, under the options transfer_model itself compiles with.  A stale cache that is "
    "served is reported with the kind of change it ignored.  Sampled, not exhaustive: the value "
    "is regression detection for the mtime walk, the version check and the option comparison.",
    note="Trusts api._compile_model (fresh compile) as the meaning of 'compiling the current "
    "sources', vf.canon.compare_models as the meaning of 'equal', and os.utime/os.stat for "
    "explicit modification times.  A version change is made observable by a harness wrapper "
    "around api._compile_model that stamps every compiled model with the api.__version__ in force "
    "(applies to transfer_model's compiles and to the reference alike).",
    technique="stateful differential testing (Hypothesis rule-based machine) against a cache-free "
    "recompile, with a logical clock for file modification times",
)
