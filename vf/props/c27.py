"""C27 - Assembling a library from several files is order-independent.

An abstract package library (top package P with package-level constants,
imports, nested packages, models that reference the constants as P.c / P.Q.c /
Q.c and instantiate or extend each other) is printed twice: as ONE file, and
split into 2-4 files (P's own file + `within P;` / `within P.Q;` files).

Path 1 (every case): for EVERY permutation of the files: parse each text
(bypass_cache), root = first tree, root.extend(next)..., flatten every model.
The canonical summary of every flat model (or the exception class) must be the
same for every permutation and the same as for the single-file text.

Path 2 (a drawn fraction): the files are written to a flat model folder (and
optionally a library folder) and go through api._compile_model and
tools.compiler.parse_all, with the directory listing (api.os.walk / Path.glob)
returning the files in drawn orders; compared with the single-file folder.
"""
import itertools
import shutil
from collections import Counter
from pathlib import Path

from hypothesis import strategies as st

from vf import env
from vf.core import Discard, Violation, drive, pymoca_frame
from vf.ref.flat import canon_ast, flat_dims

ID = "C27"
LEVEL = "exploration"
RULE = (
    "top package P (0-2 constants, optional import of a nested model), 1-2 nested packages (0-1 constants "
    "that may depend on P's, 1-2 models, rarely a third-level package), 2-4 models in P; balanced models "
    "with Real variables, parameters valued by package constants, equations over own/inherited/component "
    "variables and constants (full, relative, or two-part names), components and extends of earlier models "
    "(simple/imported, relative or full names).  The library is split by drawn cut points into P's own file "
    "plus 1-3 `within` files (members of P, a nested package as a whole or only part of its members, "
    "members of a nested package); every class and constant is in exactly one file.  One evaluation = one "
    "library+split: all n! merge orders x all models, compared with the one-file text; a quarter also run "
    "through api._compile_model / tools.compiler.parse_all with re-ordered directory listings.  "
    "non-trivial = some model references a constant or import of a package for which another file creates a "
    "`within` placeholder (so in some permutation the placeholder is merged before the package's own "
    "definition); distinct = distinct library+split."
)
ASSUMPTIONS = [
    "class names are unique in the library; only references that Modelica lookup resolves are generated "
    "(simple name in the same package or through an enclosing package / its import, otherwise qualified)",
    "constants are referenced with at least two name parts (P.c, Q.c): pymoca does not look up a bare "
    "constant name in enclosing packages, in any file layout (not this property)",
    "bases extended from another package use fully qualified names inside (C07's known finding "
    "inherited_lookup_scope is kept out of the domain)",
    "the one-file text of the same library is the reference; the flattener itself is trusted only to be "
    "deterministic (an exception on the one-file text must be the same exception in every order)",
    "the order of the variables of a CasADi model follows Symbol.order, a per-file declaration counter: it "
    "depends on how the library is cut into files but not on the file order; models from directory listings "
    "are compared with the one-file model unordered, and with each other exactly",
    "directory path: all files lie flat in one folder (plus optionally a flat library folder), so every "
    "order of a listing is one the operating system may produce; model folder files precede library "
    "folder files as in _compile_model",
]
SHARDS = {"quick": 16, "thorough": 16}
SOFT_BUDGET_S = {"quick": 200, "thorough": 1500}
MANIFEST = dict(
    text="Generated package libraries are split into 2-4 files with within clauses; for every one of the "
    "n! merge orders (Tree.extend) every model is flattened and must equal the flattening of the same "
    "library written as one file; a quarter of the cases also go through api._compile_model and "
    "tools.compiler.parse_all with the directory listing returned in drawn orders.  Sampling over "
    "libraries and splits; exhaustive over merge orders of each split.",
    note="Trusts the one-file parse+flatten as reference and the 60-line printer; names are unique, so "
    "merging of genuinely duplicated definitions is outside the domain.",
    technique="metamorphic property-based testing (all file orders vs single file)",
)

NUMS = [0.5, 1.5, 2.0, 2.5, 3.0, 4.0, 7.25]


# --------------------------------------------------------------------------
# abstract library helpers
# --------------------------------------------------------------------------
class Lib:
    """case["pkgs"][i] = {name, parent, consts:[[name, expr]], imp: None|{m, alias}, home}
    case["models"][j] = {name, pkg, ext:[{m, style}], comps:[{name, m, style}], vars:[..],
                         params:[[name, expr]], eqs:[[kind, var, expr]], home}
    home: -1 = inline in the text of the enclosing package, k >= 1 = file k (whose within is the
    enclosing package); file 0 is the top package's own file."""

    def __init__(self, case):
        self.case = case
        self.pkgs = case["pkgs"]
        self.models = case["models"]
        self.files = case["files"]

    def ppath(self, pi):
        out = []
        while pi is not None:
            out.append(self.pkgs[pi]["name"])
            pi = self.pkgs[pi]["parent"]
        return out[::-1]

    def chain(self, pi):
        """pi and its enclosing packages, innermost first."""
        out = []
        while pi is not None:
            out.append(pi)
            pi = self.pkgs[pi]["parent"]
        return out

    def mpath(self, mi):
        m = self.models[mi]
        return self.ppath(m["pkg"]) + [m["name"]]

    def mname(self, mi):
        return ".".join(self.mpath(mi))

    def forced_full(self):
        """Models whose text must use fully qualified names: bases (transitively) of an extends
        clause that crosses a package boundary."""
        out = set()

        def close(mi):
            if mi in out:
                return
            out.add(mi)
            for e in self.models[mi]["ext"]:
                close(e["m"])

        for m in self.models:
            for e in m["ext"]:
                if self.models[e["m"]]["pkg"] != m["pkg"]:
                    close(e["m"])
        return out

    def pkg_home_file(self, pi):
        while True:
            h = self.pkgs[pi].get("home", -1)
            if pi == 0:
                return 0
            if h >= 0:
                return h
            pi = self.pkgs[pi]["parent"]

    def model_file(self, mi):
        m = self.models[mi]
        return m["home"] if m.get("home", -1) >= 0 else self.pkg_home_file(m["pkg"])

    def split_pkgs(self):
        """Packages for which a file other than their own creates a `within` placeholder."""
        out = set()
        for k, f in enumerate(self.files):
            if f["within"] is None:
                continue
            for pi in self.chain(f["within"]):
                if self.pkg_home_file(pi) != k:
                    out.add(pi)
        return out


def _chain(pkgs, pi):
    out = []
    while pi is not None:
        out.append(pi)
        pi = pkgs[pi]["parent"]
    return out


def _common(a, b):
    n = 0
    while n < len(a) and n < len(b) and a[n] == b[n]:
        n += 1
    return n


def class_ref(lib, mi, target, style, full):
    """Text naming model `target` from inside model mi."""
    tp = lib.mpath(target)
    if full or style == "f":
        return ".".join(tp)
    here = lib.ppath(lib.models[mi]["pkg"])
    if style == "s":
        for pi in lib.chain(lib.models[mi]["pkg"]):
            imp = lib.pkgs[pi].get("imp")
            if imp and imp["m"] == target:
                return imp["alias"] or lib.models[target]["name"]
    return ".".join(tp[_common(here, tp[:-1]):])


def const_ref(lib, pkg_of_user, e, full):
    cp = lib.ppath(e[1])
    if full or e[3] == "f":
        return ".".join(cp + [e[2]])
    here = lib.ppath(pkg_of_user)
    n = min(_common(here, cp), len(cp) - 1)
    return ".".join(cp[n:] + [e[2]])


def expr_text(lib, pkg_of_user, e, full):
    k = e[0]
    if k == "num":
        return repr(float(e[1]))
    if k == "ref":
        return e[1]
    if k == "time":
        return "time"
    if k == "const":
        return const_ref(lib, pkg_of_user, e, full)
    if k == "neg":
        return "(-%s)" % expr_text(lib, pkg_of_user, e[1], full)
    if k == "call":
        return "%s(%s)" % (e[1], expr_text(lib, pkg_of_user, e[2], full))
    if k == "bin":
        return "(%s %s %s)" % (expr_text(lib, pkg_of_user, e[2], full), e[1], expr_text(lib, pkg_of_user, e[3], full))
    raise ValueError(e)


def expr_consts(e):
    if e[0] == "const":
        return [e[1]]
    out = []
    for c in e[1:]:
        if isinstance(c, list):
            out += expr_consts(c)
    return out


def model_text(lib, mi, ind=""):
    m = lib.models[mi]
    full = mi in lib._full
    L = [ind + "model %s" % m["name"]]
    for e in m["ext"]:
        L.append(ind + "  extends %s;" % class_ref(lib, mi, e["m"], e["style"], full))
    for name, val in m["params"]:
        L.append(ind + "  parameter Real %s = %s;" % (name, expr_text(lib, m["pkg"], val, full)))
    for c in m["comps"]:
        L.append(ind + "  %s %s;" % (class_ref(lib, mi, c["m"], c["style"], full), c["name"]))
    for v in m["vars"]:
        L.append(ind + "  Real %s;" % v)
    if m["eqs"]:
        L.append(ind + "equation")
    for kind, var, ex in m["eqs"]:
        lhs = "der(%s)" % var if kind == "der" else var
        L.append(ind + "  %s = %s;" % (lhs, expr_text(lib, m["pkg"], ex, full)))
    L.append(ind + "end %s;" % m["name"])
    return "\n".join(L)


def pkg_text(lib, pi, inline_all, ind=""):
    p = lib.pkgs[pi]
    L = [ind + "package %s" % p["name"]]
    imp = p.get("imp")
    if imp:
        tgt = ".".join(lib.mpath(imp["m"]))
        L.append(ind + "  import %s%s;" % ((imp["alias"] + " = ") if imp["alias"] else "", tgt))
    for name, val in p["consts"]:
        L.append(ind + "  constant Real %s = %s;" % (name, expr_text(lib, pi, val, True)))
    for qi, q in enumerate(lib.pkgs):
        if q["parent"] == pi and (inline_all or q.get("home", -1) < 0):
            L.append(pkg_text(lib, qi, inline_all, ind + "  "))
    for mi, m in enumerate(lib.models):
        if m["pkg"] == pi and (inline_all or m.get("home", -1) < 0):
            L.append(model_text(lib, mi, ind + "  "))
    L.append(ind + "end %s;" % p["name"])
    return "\n".join(L)


def print_single(lib):
    lib._full = lib.forced_full()
    return pkg_text(lib, 0, True) + "\n"


def print_files(lib):
    lib._full = lib.forced_full()
    out = []
    for k, f in enumerate(lib.files):
        if f["within"] is None:
            out.append(pkg_text(lib, 0, False) + "\n")
            continue
        parts = ["within %s;" % ".".join(lib.ppath(f["within"]))]
        for qi, q in enumerate(lib.pkgs):
            if q.get("home", -1) == k:
                parts.append(pkg_text(lib, qi, False))
        for mi, m in enumerate(lib.models):
            if m.get("home", -1) == k:
                parts.append(model_text(lib, mi))
        out.append("\n".join(parts) + "\n")
    return out


def validate(lib):
    """Every class appears in exactly one file, every file is non-empty, homes match withins."""
    n = len(lib.files)
    if not (2 <= n <= 4) or lib.files[0]["within"] is not None:
        raise env.HarnessError("bad file list")
    used = Counter()
    for qi, q in enumerate(lib.pkgs):
        h = q.get("home", -1)
        if qi == 0:
            continue
        if h >= 0:
            if lib.files[h]["within"] != q["parent"]:
                raise env.HarnessError("package home/within mismatch")
            used[h] += 1
    for m in lib.models:
        h = m.get("home", -1)
        if h >= 0:
            if lib.files[h]["within"] != m["pkg"]:
                raise env.HarnessError("model home/within mismatch")
            used[h] += 1
    for k in range(1, n):
        if not used[k]:
            raise env.HarnessError("empty within file")
    texts = print_files(lib)
    for m in lib.models:
        if sum(t.count("model %s\n" % m["name"]) for t in texts) != 1:
            raise env.HarnessError("model %s not in exactly one file" % m["name"])
    for p in lib.pkgs:
        if sum(t.count("package %s\n" % p["name"]) for t in texts) != 1:
            raise env.HarnessError("package %s not in exactly one file" % p["name"])
        for name, _ in p["consts"]:
            if sum(t.count("constant Real %s " % name) for t in texts) != 1:
                raise env.HarnessError("constant %s not in exactly one file" % name)
    return texts


# --------------------------------------------------------------------------
# generator
# --------------------------------------------------------------------------
@st.composite
def case_strategy(draw, ctx=None):
    pkgs = [{"name": "P", "parent": None, "consts": [], "imp": None, "home": -1}]
    nnested = draw(st.integers(1, 2))
    for i in range(nnested):
        pkgs.append({"name": "Q%d" % (i + 1), "parent": 0, "consts": [], "imp": None, "home": -1})
    if draw(st.integers(0, 5)) == 0:
        pkgs.append({"name": "R1", "parent": draw(st.integers(1, nnested)), "consts": [], "imp": None, "home": -1})
    # constants (a constant may depend on constants of enclosing packages / earlier ones)
    cn = 0
    avail = {}  # pkg -> [(pkg, name)] visible for dependencies
    for pi, p in enumerate(pkgs):
        seen = list(avail.get(p["parent"], [])) if p["parent"] is not None else []
        ncons = draw(st.integers(0, 2)) if pi == 0 else draw(st.integers(0, 1))
        if pi == 0 and ncons == 0 and draw(st.booleans()):
            ncons = 1
        for _ in range(ncons):
            cn += 1
            name = "c%d" % cn
            if seen and draw(st.integers(0, 2)) == 0:
                dp, dn = draw(st.sampled_from(seen))
                val = ["bin", draw(st.sampled_from("+*")), ["const", dp, dn, "f"], ["num", draw(st.sampled_from(NUMS))]]
            else:
                val = ["num", draw(st.sampled_from(NUMS))]
            p["consts"].append([name, val])
            seen.append((pi, name))
        avail[pi] = seen
    allconsts = [(pi, c[0]) for pi, p in enumerate(pkgs) for c in p["consts"]]
    # models: distribute over packages
    slots = [0] * draw(st.integers(2, 4))
    for pi in range(1, len(pkgs)):
        slots += [pi] * (draw(st.integers(1, 2)) if pkgs[pi]["parent"] == 0 else 1)
    slots = draw(st.permutations(slots))
    models = []
    vcount = 0

    def flat_vars(mi, prefix=""):
        m = models[mi]
        out = []
        for e in m["ext"]:
            out += flat_vars(e["m"], prefix)
        out += [prefix + v for v in m["vars"]] + [prefix + pn for pn, _ in m["params"]]
        for c in m["comps"]:
            out += flat_vars(c["m"], prefix + c["name"] + ".")
        return out

    def bases(mi):
        out = {mi}
        for e in models[mi]["ext"]:
            out |= bases(e["m"])
        return out

    for j, pi in enumerate(slots):
        m = {"name": "M%d" % (j + 1), "pkg": pi, "ext": [], "comps": [], "vars": [], "params": [], "eqs": [], "home": -1}
        models.append(m)
        earlier = list(range(j))
        if earlier and draw(st.integers(0, 2)) == 0:
            nb = 2 if len(earlier) >= 2 and draw(st.integers(0, 4)) == 0 else 1
            picked = []
            for _ in range(nb):
                b = draw(st.sampled_from(earlier))
                # no diamond: a variable must not be inherited twice
                if all(not (bases(b) & bases(x)) for x in picked):
                    picked.append(b)
                    m["ext"].append({"m": b, "style": draw(st.sampled_from("srf"))})
        if earlier:
            for _ in range(draw(st.integers(0, 2))):
                vcount += 1  # element names are unique in the library: no clash between inherited and own elements
                m["comps"].append({"name": "a%d" % vcount, "m": draw(st.sampled_from(earlier)), "style": draw(st.sampled_from("srf"))})
        for _ in range(draw(st.integers(0, 2))):
            vcount += 1
            if allconsts and draw(st.integers(0, 3)) != 0:
                cp, cname = draw(st.sampled_from(allconsts))
                val = ["const", cp, cname, draw(st.sampled_from("fr"))]
                if draw(st.booleans()):
                    val = ["bin", draw(st.sampled_from("+-*")), val, ["num", draw(st.sampled_from(NUMS))]]
            else:
                val = ["num", draw(st.sampled_from(NUMS))]
            m["params"].append(["p%d" % vcount, val])
        for _ in range(draw(st.integers(1, 3))):
            vcount += 1
            m["vars"].append("x%d" % vcount)
        scope = flat_vars(j)

        def leaf():
            k = draw(st.integers(0, 9))
            if k <= 3 and allconsts:
                cp, cname = draw(st.sampled_from(allconsts))
                return ["const", cp, cname, draw(st.sampled_from("fr"))]
            if k <= 6:
                return ["ref", draw(st.sampled_from(scope))]
            if k == 7:
                return ["time"]
            return ["num", draw(st.sampled_from(NUMS))]

        def expr(d):
            k = draw(st.integers(0, 5)) if d > 0 else 0
            if k <= 1:
                return leaf()
            if k <= 3:
                return ["bin", draw(st.sampled_from("+-*")), expr(d - 1), expr(d - 1)]
            if k == 4:
                return ["neg", expr(d - 1)]
            return ["call", draw(st.sampled_from(["sin", "cos"])), expr(d - 1)]

        for v in m["vars"]:
            m["eqs"].append([draw(st.sampled_from(["alg", "alg", "der"])), v, expr(2)])
    # optional package-level import (of a model from another package) + users of it are style "s"
    for pi, p in enumerate(pkgs):
        if draw(st.integers(0, 2)) == 0:
            own_chain = set()
            q = pi
            while q is not None:
                own_chain.add(q)
                q = pkgs[q]["parent"]
            cands = [mi for mi, m in enumerate(models) if m["pkg"] not in own_chain]
            if cands:
                tgt = draw(st.sampled_from(cands))
                p["imp"] = {"m": tgt, "alias": ("Z%d" % pi) if draw(st.booleans()) else None}
                # make sure somebody uses it: a later model below this package instantiates it by the imported name
                users = [mi for mi, m in enumerate(models) if mi > tgt and pi in _chain(pkgs, m["pkg"])]
                if users and draw(st.integers(0, 3)) != 0:
                    u = models[draw(st.sampled_from(users))]
                    u["comps"].append({"name": "i%d" % pi, "m": tgt, "style": "s"})
    # split into files
    files = [{"within": None}]
    classes = [("p", i) for i in range(1, len(pkgs))] + [("m", j) for j in range(len(models))]
    order = draw(st.permutations(classes))
    next_files = draw(st.sampled_from([1, 1, 2, 2, 3]))  # 4 files = 24 merge orders x all models: the expensive ones are rarer
    for kind, i in order[:next_files]:
        obj = pkgs[i] if kind == "p" else models[i]
        files.append({"within": obj["parent"] if kind == "p" else obj["pkg"]})
        obj["home"] = len(files) - 1
    for kind, i in order[next_files:]:
        obj = pkgs[i] if kind == "p" else models[i]
        par = obj["parent"] if kind == "p" else obj["pkg"]
        opts = [-1, -1] + [k for k, f in enumerate(files) if k and f["within"] == par]
        obj["home"] = draw(st.sampled_from(opts))
    case = {"pkgs": pkgs, "models": models, "files": files, "api": None}
    if draw(st.integers(0, 3)) == 0:
        n = len(files)
        perms = [list(draw(st.permutations(range(n)))) for _ in range(2)]
        # one order with P's own file last
        rest = list(draw(st.permutations(range(1, n))))
        perms.append(rest + [0])
        libflags = [False] * n
        if draw(st.booleans()):
            libflags = [draw(st.booleans()) for _ in range(n)]
            if all(libflags):
                libflags[draw(st.integers(0, n - 1))] = False
        case["api"] = {"perms": perms, "lib": libflags, "model": draw(st.integers(0, len(models) - 1))}
    return case


# --------------------------------------------------------------------------
# oracle
# --------------------------------------------------------------------------
SYM_ATTRS = ("value", "start", "min", "max", "nominal", "fixed")


def summarize(fc):
    from pymoca import ast

    syms = []
    for name, s in fc.symbols.items():
        t = s.type.name if isinstance(s.type, ast.ComponentRef) else type(s.type).__name__
        syms.append([name, s.name, t, sorted(s.prefixes), flat_dims(s), [canon_ast(getattr(s, a)) for a in SYM_ATTRS]])
    return {
        "symbols": syms,
        "equations": sorted(canon_ast(e) for e in fc.equations),
        "initial_equations": sorted(canon_ast(e) for e in fc.initial_equations),
    }


def flatten_summary(root, name):
    from pymoca import ast, tree

    try:
        ft = tree.flatten(root, ast.ComponentRef.from_string(name))
        return summarize(ft.classes[name])
    except NotImplementedError as e:
        raise Discard("NotImplementedError:" + pymoca_frame(e))
    except Exception as e:  # noqa: BLE001 - an exception is an observable outcome here
        if pymoca_frame(e) == "?":
            raise
        return {"exception": type(e).__name__}


def parse_text(text):
    from pymoca import parser

    t = parser.parse(text, bypass_cache=True)
    if t is None:
        raise env.HarnessError("generated text does not parse:\n" + text)
    return t


def merge(texts, perm):
    root = None
    for k in perm:
        t = parse_text(texts[k])
        if root is None:
            root = t
        else:
            try:
                root.extend(t)
            except Exception as e:  # noqa: BLE001
                if pymoca_frame(e) == "?":
                    raise
                raise Violation("exception[extend]:%s@%s" % (type(e).__name__, pymoca_frame(e)), "order %r: %s" % (list(perm), e))
    return root


def diff_kind(ref, got):
    """Most specific description of how summary `got` deviates from `ref`."""
    if "exception" in got or "exception" in ref:
        return "exception"
    rs = {s[0]: s for s in ref["symbols"]}
    gs = {s[0]: s for s in got["symbols"]}
    if set(rs) != set(gs):
        missing = set(rs) - set(gs)
        if missing and all("constant" in rs[n][3] for n in missing) and not (set(gs) - set(rs)):
            return "constant_lost"
        return "symbols"
    if ref["equations"] != got["equations"] or ref["initial_equations"] != got["initial_equations"]:
        return "equations"
    for n in rs:
        if rs[n] != gs[n]:
            return "symbol_attributes"
    if [s[0] for s in ref["symbols"]] != [s[0] for s in got["symbols"]]:
        return "symbol_order"
    return "other"


def brief(s):
    if "exception" in s:
        return s["exception"]
    return "symbols=%r equations=%r" % ([x[0] for x in s["symbols"]], s["equations"])


def file_desc(lib, texts, perm):
    return " | ".join("[%d] %s" % (k, texts[k].split("\n", 1)[0]) for k in perm)


def check_case(ctx, case):
    lib = Lib(case)
    texts = validate(lib)
    single = print_single(lib)
    names = [lib.mname(mi) for mi in range(len(lib.models))]
    sroot = parse_text(single)
    ref = {n: flatten_summary(sroot, n) for n in names}
    n = len(texts)
    results = {}
    for perm in itertools.permutations(range(n)):
        root = merge(texts, perm)
        results[perm] = {nm: flatten_summary(root, nm) for nm in names}
    bad = [(perm, nm) for perm in results for nm in names if results[perm][nm] != ref[nm]]
    if bad:
        agree = [perm for perm in results if all(results[perm][nm] == ref[nm] for nm in names)]
        perm, nm = bad[0]
        all_same = all(results[p] == results[perm] for p in results)
        kind = diff_kind(ref[nm], results[perm][nm])
        head = "differs_from_single_file:" if all_same else "order_dependent:"
        raise Violation(
            head + kind,
            "model %s, merge order %s gives %s; the single-file text%s gives %s\n--- files\n%s\n--- single file\n%s"
            % (
                nm,
                file_desc(lib, texts, perm),
                brief(results[perm][nm]),
                (" and merge order %s" % file_desc(lib, texts, agree[0])) if agree else "",
                brief(ref[nm]),
                "\n".join("# file %d\n%s" % (k, t) for k, t in enumerate(texts)),
                single,
            ),
        )
    labels = ["nfiles:%d" % n, "models:%d" % len(names)]
    if case.get("api"):
        labels += check_api(ctx, case, lib, texts, single, ref)
    # classification
    split = lib.split_pkgs()
    full = lib.forced_full()
    used_consts = set()
    for m in lib.models:
        for _, val in m["params"]:
            used_consts |= set(expr_consts(val))
        for _, _, ex in m["eqs"]:
            used_consts |= set(expr_consts(ex))
    imp_used = False
    for mi, m in enumerate(lib.models):
        for r in m["ext"] + m["comps"]:
            if r["style"] == "s" and mi not in full:
                for pi in lib.chain(m["pkg"]):
                    imp = lib.pkgs[pi].get("imp")
                    if imp and imp["m"] == r["m"] and pi in split:
                        imp_used = True
    if 0 in used_consts:
        labels.append("const_ref_top")
    if any(pi in split for pi in used_consts if pi):
        labels.append("const_ref_nested_split")
    if any(expr_consts(c[1]) for p in lib.pkgs for c in p["consts"]):
        labels.append("const_depends_on_const")
    if imp_used:
        labels.append("import_of_split_pkg_used")
    if any(p.get("home", -1) >= 0 for p in lib.pkgs):
        labels.append("nested_pkg_in_within_file")
    if any(f["within"] not in (None, 0) for f in lib.files):
        labels.append("within_nested_pkg")
    if any(pi for pi in split if pi):
        labels.append("nested_pkg_split")
    if len(lib.pkgs) > 1 and not any(m["pkg"] == 0 and m.get("home", -1) < 0 for m in lib.models) and not any(
        p["parent"] == 0 and p.get("home", -1) < 0 for p in lib.pkgs
    ):
        labels.append("own_file_without_members")
    if any(lib.models[e["m"]]["pkg"] != m["pkg"] for m in lib.models for e in m["ext"]):
        labels.append("cross_pkg_extends")
    if any(lib.models[c["m"]]["pkg"] != m["pkg"] for m in lib.models for c in m["comps"]):
        labels.append("cross_pkg_component")
    if any(lib.model_file(r["m"]) != lib.model_file(mi) for mi, m in enumerate(lib.models) for r in m["ext"] + m["comps"]):
        labels.append("cross_file_class_ref")
    if any(p["parent"] not in (None, 0) for p in lib.pkgs):
        labels.append("third_level_pkg")
    if any("exception" in s for s in ref.values()):
        labels.append("single_file_raises")
    nontrivial = bool(used_consts & split) or imp_used
    return dict(nontrivial=nontrivial, labels=labels, sample={"files": texts})


# --------------------------------------------------------------------------
# path 2: directory listings (CasADi API and tools/compiler.py)
# --------------------------------------------------------------------------
class _OsShim:
    """Stands in for the `os` module inside pymoca.backends.casadi.api: walk() reports the files
    of a (flat) folder in the order the harness chose; everything else is the real os."""

    def __init__(self, real, listing):
        self._real = real
        self._listing = listing

    def walk(self, top, *a, **kw):
        key = str(Path(top).resolve())
        if key not in self._listing:
            raise env.HarnessError("unexpected walk of %s" % top)
        real = sorted(p.name for p in Path(top).iterdir())
        names = self._listing[key]
        if sorted(names) != real:
            raise env.HarnessError("listing of %s does not match the directory" % top)
        yield top, [], list(names)

    def __getattr__(self, name):
        return getattr(self._real, name)


def _ordered_dir(folder, names):
    base = type(Path())

    class OrderedDir(base):
        def glob(self, pattern, **kw):
            got = sorted(p.name for p in base(str(self)).glob(pattern))
            if got != sorted(names):
                raise env.HarnessError("glob of %s does not match the directory" % self)
            return iter([base(str(self)) / nm for nm in names])

    return OrderedDir(str(folder))


def _model_summary(m):
    from vf.canon import model_struct

    return {
        "struct": model_struct(m),
        "equations": [str(e) for e in m.equations],
        "initial_equations": [str(e) for e in m.initial_equations],
        "values": {
            cat: [[str(getattr(v, a)) for a in ("value", "start", "min", "max", "nominal", "fixed")] for v in getattr(m, cat)]
            for cat in ("states", "alg_states", "inputs", "parameters", "constants")
        },
    }


def _loose(s):
    """Order-insensitive form of a model summary."""
    if "exception" in s:
        return s
    out = {"equations": sorted(s["equations"]), "initial_equations": sorted(s["initial_equations"])}
    for cat, vs in s["values"].items():
        out[cat] = sorted([json_key(v), json_key(val)] for v, val in zip(s["struct"][cat], vs))
    out["outputs"] = sorted(s["struct"]["outputs"])
    out["alias_relation"] = sorted(json_key(x) for x in s["struct"]["alias_relation"])
    return out


def json_key(x):
    import json

    return json.dumps(x, sort_keys=True, default=str)


_api_counter = [0]


def check_api(ctx, case, lib, texts, single, ref):
    import pymoca.backends.casadi.api as api
    from pymoca import ast
    from pymoca.backends.casadi._options import _merge_default_options

    import tools.compiler as tc

    if env.REPO not in Path(tc.__file__).resolve().parents:
        raise env.HarnessError("tools.compiler imported from %s" % tc.__file__)
    env.pin_version()
    spec = case["api"]
    mname = lib.mname(spec["model"])
    _api_counter[0] += 1
    base = Path(ctx.scratch) / ("c27_%d" % _api_counter[0])
    if base.exists():
        shutil.rmtree(base)
    mdir, ldir, sdir = base / "model", base / "lib", base / "single"
    for d in (mdir, ldir, sdir):
        d.mkdir(parents=True)
    fname = {}  # unique names (one folder holds all files on the tools/compiler.py path)
    aname = {}  # names numbered per folder on the API path: the model folder and the library folder both
    counts = {True: 0, False: 0}  # start with package.mo, part1.mo, .. (same base names in two folders)
    for k, t in enumerate(texts):
        fname[k] = ("package.mo" if k == 0 else "part%d.mo" % k)
        inlib = bool(spec["lib"][k])
        aname[k] = "package.mo" if counts[inlib] == 0 else "part%d.mo" % counts[inlib]
        counts[inlib] += 1
        ((ldir if inlib else mdir) / aname[k]).write_text(t, encoding="utf-8")
    (sdir / "whole.mo").write_text(single, encoding="utf-8")
    use_lib = any(spec["lib"])

    def compile_(folder, libs, listing):
        opts = _merge_default_options({"library_folders": [str(x) for x in libs]})
        real_os = api.os
        api.os = _OsShim(real_os, listing)
        try:
            return _model_summary(api._compile_model(str(folder), mname, opts))
        except env.HarnessError:
            raise
        except Exception as e:  # noqa: BLE001 - outcome
            if pymoca_frame(e) == "?":
                raise
            return {"exception": type(e).__name__}
        finally:
            api.os = real_os

    try:
        want = compile_(sdir, [], {str(sdir.resolve()): ["whole.mo"]})
        first = None
        for pno, perm in enumerate(spec["perms"]):
            if perm in spec["perms"][:pno]:
                continue
            mfiles = [aname[k] for k in perm if not spec["lib"][k]]
            lfiles = [aname[k] for k in perm if spec["lib"][k]]
            listing = {str(mdir.resolve()): mfiles}
            if use_lib:
                listing[str(ldir.resolve())] = lfiles
            got = compile_(mdir, [ldir] if use_lib else [], listing)
            order = " | ".join("[%d]%s %s" % (k, "(lib)" if spec["lib"][k] else "", texts[k].split("\n", 1)[0]) for k in [k for k in perm if not spec["lib"][k]] + [k for k in perm if spec["lib"][k]])
            dump = "\n".join("# file %d\n%s" % (k, t) for k, t in enumerate(texts))
            # same content as the one-file folder (variable order follows per-file declaration counters: compared unordered)
            if _loose(got) != _loose(want):
                if "exception" in got or "exception" in want:
                    kind = "exception"
                else:
                    kind = next(k for k in _loose(want) if _loose(want)[k] != _loose(got)[k])
                raise Violation(
                    "api_order_dependent:" + kind,
                    "_compile_model(%s) with directory listing %s gives %s; single file gives %s\n%s" % (mname, order, _short(got), _short(want), dump),
                )
            # and exactly the same model (order included) for every listing order
            if first is None:
                first = (order, got)
            elif got != first[1]:
                kind = next(k for k in got if first[1][k] != got[k])
                raise Violation(
                    "api_order_dependent:strict_" + kind,
                    "_compile_model(%s) with directory listing %s gives %s; listing %s gives %s\n%s" % (mname, order, _short(got), first[0], _short(first[1]), dump),
                )
            # tools/compiler.py: Path.glob order (one folder holding all files)
            tree = ast.Tree(name="ModelicaTree")
            alld = base / ("all_%d" % pno)
            alld.mkdir()
            for k, t in enumerate(texts):
                (alld / fname[k]).write_text(t, encoding="utf-8")
            files, errs = tc.parse_all([_ordered_dir(alld, [fname[k] for k in perm])], tree)
            if errs or [p.name for p in files] != [fname[k] for k in perm]:
                raise Violation("tools_parse_all:files", "parse_all returned files %r errors %r" % (files, errs))
            try:
                fs = summarize(tc.flatten_class(tree, mname).classes[mname])
            except Exception as e:  # noqa: BLE001
                if pymoca_frame(e) == "?":
                    raise
                fs = {"exception": type(e).__name__}
            if fs != ref[mname]:
                raise Violation(
                    "tools_order_dependent:" + diff_kind(ref[mname], fs),
                    "tools.compiler.parse_all with glob order %s, flatten_class(%s) gives %s; single file gives %s\n%s"
                    % (file_desc(lib, texts, perm), mname, brief(fs), brief(ref[mname]), "\n".join("# file %d\n%s" % (k, t) for k, t in enumerate(texts))),
                )
    finally:
        shutil.rmtree(base, ignore_errors=True)
    labels = ["api_path"]
    if use_lib:
        labels.append("api_library_folder")
        if len(set(aname.values())) < len(aname):
            labels.append("api_same_base_name_in_two_folders")
        if spec["lib"][0]:
            labels.append("api_own_file_in_library_folder")
    if "exception" in want:
        labels.append("api_single_file_raises")
    return labels


def _short(s):
    if "exception" in s:
        return s["exception"]
    return "constants=%r parameters=%r equations=%r" % (
        [v["name"] for v in s["struct"]["constants"]],
        [v["name"] for v in s["struct"]["parameters"]],
        s["equations"],
    )


def shard(ctx):
    drive(ctx, case_strategy(ctx), check_case, ctx.share(150, 5000))


def replay(ctx, case):
    check_case(ctx, case)
