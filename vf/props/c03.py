"""C03 - Parsed expressions follow Modelica precedence and literal values.

Generator: typed abstract expression trees (vf.gen.expr) printed with minimal
or redundant parentheses, embedded as an equation right-hand side, as a
declaration value and as an attribute modification.  Oracle: the reference
evaluator on the ABSTRACT tree vs an interpreter over the PARSED pymoca AST, at
several drawn points, plus grouping-independent structural checks (leaf and
operator multisets, no list nodes left by parenthesised single expressions)
and exact type/value equality for literals."""
from collections import Counter

from hypothesis import strategies as st

from vf.core import Discard, Violation, drive, guarded, isclose
from vf.gen import expr as X
from vf.ref import asteval

ID = "C03"
LEVEL = "exploration"
RULE = (
    "expression trees (depth <= 4: variables, int/real/bool literals, unary +/-, + - * / ^ and "
    "element-wise forms, relations, not/and/or, if/elseif/else, builtin calls) printed with minimal "
    "or redundant parentheses in 3 syntactic positions; plus a literal sub-domain (integers to 10^30 "
    "with leading zeros, reals d+. d+.d+ d+e[+-]d+, booleans, strings).  non-trivial = the minimal "
    "text contains >= 2 operators whose grouping is decided by precedence or associativity; "
    "distinct = distinct (tree, parenthesisation, position)."
)
ASSUMPTIONS = [
    "forms the MLS grammar does not define (a^b^c, a<b<c, a * -b) are never printed",
    "string literals may contain the escape sequences \\\" \\\\ \\n \\t; the parsed value may keep them verbatim or decode them (not fixed by docs or callers)",
    "value-equal groupings such as (-a)*b for -a*b are accepted: the oracle is evaluation, as the statement says",
    "evaluation points where the reference itself is within 1e-6 of a branch flip or non-finite are redrawn",
]

CFG = X.Cfg(vars_=("a", "b", "c", "d"), bool_vars=("p", "q"))
VARS = ["a", "b", "c", "d"]

POSITIONS = ["equation", "declaration", "modification"]


def model_text(kind, etxt, boolean):
    t = "Boolean" if boolean else "Real"
    head = "model M\n  Real a, b, c, d;\n  Boolean p, q;\n"
    if kind == "equation":
        return head + "  %s y;\nequation\n  y = %s;\nend M;\n" % (t, etxt)
    if kind == "declaration":
        return head + "  %s y = %s;\nend M;\n" % (t, etxt)
    return head + "  %s y(start = %s);\nend M;\n" % (t, etxt)


def extract(tree, kind):
    c = tree.classes["M"]
    if kind == "equation":
        if len(c.equations) != 1:
            raise Violation("equation_count", "expected 1 equation, got %d" % len(c.equations))
        return c.equations[0].right
    sym = c.symbols["y"]
    want = "value" if kind == "declaration" else "start"
    cm = sym.class_modification
    if cm is None:
        raise Violation("modification_missing", "symbol y has no class_modification")
    for arg in cm.arguments:
        if arg.value.component.name == want:
            return arg.value.modifications[0]
    raise Violation("modification_missing", "no %s modification on y" % want)


def ast_leaves_ops(node):
    from pymoca import ast

    leaves, ops, lists = Counter(), Counter(), 0

    def go(n):
        nonlocal lists
        if isinstance(n, ast.Primary):
            leaves[("lit", type(n.value).__name__, repr(n.value))] += 1
        elif isinstance(n, ast.ComponentRef):
            leaves[("var", asteval.ref_name(n))] += 1
        elif isinstance(n, ast.Expression):
            op = n.operator
            if isinstance(op, ast.ComponentRef):
                op = "call:" + asteval.ref_name(op)
            ops[(op, len(n.operands))] += 1
            for o in n.operands:
                go(o)
        elif isinstance(n, ast.IfExpression):
            ops[("if", len(n.conditions))] += 1
            for o in n.conditions + n.expressions:
                go(o)
        elif isinstance(n, list):
            lists += 1
            for o in n:
                go(o)
        else:
            raise Violation("unexpected_node", "node %s in expression" % type(n).__name__)

    go(node)
    return leaves, ops, lists


def abs_leaves_ops(e):
    leaves, ops = Counter(), Counter()
    for n in X.walk(e):
        k = n[0]
        if k == "var":
            leaves[("var", n[1])] += 1
        elif k == "int":
            leaves[("lit", "int", repr(int(n[1])))] += 1
        elif k == "real":
            leaves[("lit", "float", repr(float(n[1])))] += 1
        elif k == "bool":
            leaves[("lit", "bool", repr(bool(n[1])))] += 1
        elif k == "neg":
            ops[("-", 1)] += 1
        elif k == "pos":
            ops[("+", 1)] += 1
        elif k in ("bin", "rel"):
            ops[(n[1], 2)] += 1
        elif k == "not":
            ops[("not", 1)] += 1
        elif k in ("and", "or"):
            ops[(k, 2)] += 1
        elif k == "if":
            ops[("if", (len(n) - 2) // 2)] += 1
        elif k == "call":
            ops[("call:" + n[1], len(n) - 2)] += 1
    return leaves, ops


def check_expr(ctx, case):
    from pymoca import parser

    e, bits, kind, boolean, points, spaces = (
        case["expr"], case["bits"], case["pos"], case["bool"], case["points"], case["spaces"],
    )
    etxt = X.to_modelica(e, bits, spaces)
    text = model_text(kind, etxt, boolean)
    tree = guarded(parser.parse, text, bypass_cache=True, where="parse")
    if tree is None:
        raise Violation("valid_text_rejected", "parse returned None for: %s" % etxt)
    node = extract(tree, kind)
    al, ao, lists = ast_leaves_ops(node)
    el, eo = abs_leaves_ops(e)
    if lists:
        raise Violation("paren_list_node", "parenthesised single expression left a list node: %s" % etxt)
    if al != el:
        raise Violation("leaf_multiset", "%s: leaves %r expected %r" % (etxt, dict(al - el), dict(el - al)))
    if ao != eo:
        raise Violation("operator_multiset", "%s: operators %r expected %r" % (etxt, dict(ao - eo), dict(eo - ao)))
    done = 0
    for pt in points:
        env = dict(zip(VARS, pt[:4]))
        env["p"], env["q"] = pt[4] > 1.75, pt[5] > 1.75
        try:
            want = X.evaluate(e, env)
        except X.Fragile:
            ctx.extra["fragile_points"] += 1
            continue
        try:
            got = asteval.evaluate(node, env)
        except (asteval.AstEvalError, ArithmeticError, ValueError, TypeError, KeyError) as ex:
            raise Violation("ast_eval_fails", "%s at %r: %s: %s (reference %r)" % (etxt, env, type(ex).__name__, ex, want))
        if isinstance(want, bool) != isinstance(got, bool) or not isclose(want, got, 1e-9, 1e-12):
            raise Violation("value_mismatch", "%s at %r: parsed tree evaluates to %r, Modelica value %r" % (etxt, env, got, want))
        done += 1
    if done == 0:
        raise Discard("all points fragile")
    nt = X.precedence_sensitive(e)
    labels = ["pos:" + kind, "bool" if boolean else "num", "redundant" if bits else "minimal"]
    for op in set(X.operators(e)):
        labels.append("op:" + op)
    return dict(nontrivial=nt, labels=labels, sample={"text": etxt, "tree": e})


def check_literal(ctx, case):
    from pymoca import parser, ast

    txt, kind = case["lit"], case["kind"]
    text = model_text("equation", txt, kind == "bool")
    if kind == "str":
        text = "model M\n  String y = %s;\nend M;\n" % txt
    tree = guarded(parser.parse, text, bypass_cache=True, where="parse")
    if tree is None:
        raise Violation("valid_literal_rejected", "parse returned None for literal %s" % txt)
    if kind == "str":
        node = extract(tree, "declaration")
    else:
        node = extract(tree, "equation")
    if not isinstance(node, ast.Primary):
        raise Violation("literal_not_primary", "%s parsed to %s" % (txt, type(node).__name__))
    v = node.value
    if kind == "int":
        want = int(txt)
        ok = type(v) is int and v == want
    elif kind == "real":
        want = float(txt)
        ok = type(v) is float and v == want
    elif kind == "bool":
        want = txt == "true"
        ok = type(v) is bool and v == want
    else:
        # the value is the text between the delimiters; whether escape sequences are kept verbatim
        # (what pymoca does) or decoded is not fixed by docs or callers: both readings are accepted
        want = txt[1:-1]
        decoded = want.replace('\\"', '"').replace("\\n", "\n").replace("\\t", "\t").replace("\\\\", "\\")
        ok = type(v) is str and v in (want, decoded)
    if not ok:
        raise Violation("literal_value:" + kind, "literal %s parsed to %r (%s), expected %r" % (txt, v, type(v).__name__, want))
    return dict(nontrivial=len(txt) > 2, labels=["literal:" + kind], sample={"literal": txt})


# six well-separated magnitudes in a drawn order, scaled by a drawn factor: mis-grouping changes
# the value, and relations are never evaluated at (near-)equal operands by accident
BASE_POINT = [0.7, 1.3, 1.9, 2.6, 1.1, 2.3]
point = st.tuples(st.permutations(BASE_POINT), st.sampled_from([0.8, 0.9, 1.0, 1.1, 1.2])).map(
    lambda t: [round(v * t[1], 6) for v in t[0]]
)


@st.composite
def expr_case(draw):
    boolean = draw(st.integers(0, 3)) == 0
    e = draw(X.bool_expr(CFG, 3)) if boolean else draw(X.num_expr(CFG, draw(st.integers(1, 4))))
    redundant = draw(st.booleans())
    bits = draw(st.lists(st.integers(0, 3), min_size=8, max_size=40)) if redundant else []
    return {
        "expr": e,
        "bits": bits,
        "pos": draw(st.sampled_from(POSITIONS)),
        "bool": boolean,
        "points": draw(st.lists(point, min_size=4, max_size=4)),
        "spaces": draw(st.booleans()),
    }


digits = st.text("0123456789", min_size=1, max_size=30)
small = st.text("0123456789", min_size=1, max_size=3)


@st.composite
def literal_case(draw):
    kind = draw(st.sampled_from(["int", "int", "real", "real", "real", "bool", "str"]))
    if kind == "int":
        return {"lit": draw(digits), "kind": "int"}
    if kind == "real":
        form = draw(st.integers(0, 3))
        ip = draw(st.text("0123456789", min_size=1, max_size=12))
        if form == 0:
            t = ip + "."
        elif form == 1:
            t = ip + "." + draw(st.text("0123456789", min_size=1, max_size=12))
        elif form == 2:
            t = ip + draw(st.sampled_from("eE")) + draw(st.sampled_from(["", "+", "-"])) + draw(small)
        else:
            t = ip + "." + draw(small) + draw(st.sampled_from("eE")) + draw(st.sampled_from(["", "+", "-"])) + draw(st.text("0123456789", min_size=1, max_size=2))
        return {"lit": t, "kind": "real"}
    if kind == "bool":
        return {"lit": draw(st.sampled_from(["true", "false"])), "kind": "bool"}
    # plain printable characters plus the escape sequences \" \\ \n \t (anywhere, incl. at the end)
    plain = st.text(st.characters(min_codepoint=32, max_codepoint=126, blacklist_characters='"\\'), max_size=6)
    parts = draw(st.lists(st.one_of(plain, st.sampled_from(['\\"', "\\\\", "\\n", "\\t"])), max_size=5))
    body = "".join(parts)
    pad = draw(st.integers(0, 5))  # blanks at the ends belong to the value
    if pad == 0:
        body = " " + body
    elif pad == 1:
        body = body + draw(st.sampled_from([" ", "  "]))
    elif pad == 2:
        body = " " + body + " "
    return {"lit": '"%s"' % body, "kind": "str"}


def shard(ctx):
    drive(ctx, expr_case(), check_expr, ctx.share(3000, 200000))
    drive(ctx, literal_case(), check_literal, ctx.share(800, 40000))


def replay(ctx, case):
    if "lit" in case:
        check_literal(ctx, case)
    else:
        check_expr(ctx, case)


MANIFEST = dict(
    text="Grammar-directed generation of typed expression trees printed with minimal and redundant "
    "parentheses in three syntactic positions; the parsed AST is interpreted by an independent "
    "evaluator and compared with the reference value of the abstract tree at drawn points, plus "
    "grouping-independent structural checks and exact literal type/value checks.  Sampling, not "
    "exhaustive; the domain is the statement's list of forms.",
    note="Trusts the harness printer to emit the MLS-minimal parenthesisation of a tree (it is the "
    "definition of what the text denotes) and the two ~100-line evaluators; tests the committed "
    "generated parser, so an edit to Modelica.g4 without regeneration is invisible.",
    technique="property-based testing: generated expression trees, print/parse/evaluate round trip against a reference evaluator",
)
