"""C01 - Parse cache is transparent over any cache history.

One Hypothesis rule-based machine = one cache folder.  The machine only draws
abstract operations (JSON lists); `Sim` executes them against pymoca and holds
the whole oracle, so a stored history replays through exactly the same code.

Oracle (never reads pymoca's cache logic to decide what is right):
 (a) after every parse(text, cached): same outcome as parse(text,
     bypass_cache=True) - structurally identical tree (vf.canon.tree_canon), None
     exactly for the texts that are broken by construction, no exception;
 (b) after every step, through a separate read-only sqlite3 connection (only when
     the file is a valid database whose `models` table has the expected
     columns): no row keyed by the sha256 of a broken text, and every row whose
     blob unpickles holds the uncached tree of the pool text with that hash.
     Rows planted by the harness for a version that is never the current one
     ("written by another pymoca version") are exempt.
"""
import contextlib
import hashlib
import importlib
import io
import os
import pickle
import shutil
import sqlite3
import tempfile
from pathlib import Path

import hypothesis
from hypothesis import strategies as st
from hypothesis.stateful import RuleBasedStateMachine, initialize, rule, run_state_machine_as_test

from vf.canon import tree_canon
from vf.core import Violation, as_violation, exc_kind, hsettings, pymoca_frame
from vf.env import pin_version

ID = "C01"
LEVEL = "exploration"
RULE = (
    "rule-based machines, one cache folder each: a pool of 3-4 valid texts (out of 10) plus 1-2 "
    "syntactically broken variants, then up to 25 (quick) / 50 (thorough) operations out of parse "
    "(expiration 0/1/30 days, always_update_last_hit, bypass), reload, set_version (1.0, 1.1, "
    "1.0.dirty), advance_clock (1 h, 25 h, 31 d), corrupt_entry (junk, truncated, empty, missing "
    "class, missing module), wrong_layout (models/metadata x extra column/renamed column/dropped/same names with other declared types, without primary key or in another order), "
    "corrupt_file (text, truncated, zero length), delete_db, foreign_entry (row of another version "
    "holding another tree).  One evaluated case = one parse call together with the history before "
    "it; non-trivial = that call is a cache hit (a row for hash+version that unpickles existed "
    "before the call, is not pruned by it, call not bypassed, version not dirty) and the history "
    "before it contains at least one of reload, version change, expiry, entry corruption, layout "
    "change, file corruption/deletion; distinct = distinct history prefix (operations with all "
    "arguments)."
)
ASSUMPTIONS = [
    "damage to the table layout or to the database file (wrong_layout, corrupt_file, delete_db) "
    "happens while no process has that database initialized: the operation is followed by a "
    "module reload (the documented stand-in for a new process).  parse() checks integrity and "
    "layout once per process and database (parse.initialized_dbs); structural damage inflicted on "
    "a database this process has already initialized makes parse() raise sqlite3 errors - treated "
    "as outside the statement's 'what happened before', reported separately",
    "entry corruption is restricted to blobs for which pickle.loads provably raises (verified in "
    "the harness before writing); byte changes that still unpickle to some object are excluded "
    "(the cache has no checksum and the statement only speaks of entries that no longer unpickle)",
    "which texts have a syntax error is known by construction (valid hand-written models; broken "
    "variants drop the last ';', drop the last 'end X;' or insert a stray 'then'); the uncached "
    "parse is additionally required to agree with that",
    "that a dirty version bypasses the cache, and when entries are pruned, are mechanisms: "
    "classified, not asserted",
    "structural identity = vf.canon.tree_canon (Node.to_json without parent/scope/id)",
]
SHARDS = {"quick": 16, "thorough": 16}
SOFT_BUDGET_S = {"quick": 150, "thorough": 1500}

# --------------------------------------------------------------------------
# texts
# --------------------------------------------------------------------------
H = "// pymoca parse cache verification: shared header, deliberately longer than 64 characters\n"
VALID = [
    "model A\n  parameter Real x, y;\nequation\n  der(y) = x;\nend A;\n",
    H + "model B\n  parameter Real k = 2.0;\n  Real x(start = 1.0, min = 0.0);\n  Real y;\nequation\n"
    "  der(x) = -k * x;\n  y = 2 * x + 1;\nend B;\n",
    H + "model Base\n  parameter Real p = 1.0;\n  Real a;\nequation\n  a = p;\nend Base;\n\n"
    "model Derived\n  extends Base(p = 3.0);\n  Real b;\nequation\n  b = a + p;\nend Derived;\n",
    "package P\n  constant Real g = 9.81;\n  model M\n    Real h(start = 10);\n    Real v;\n  equation\n"
    "    der(h) = v;\n    der(v) = -g;\n  end M;\nend P;\n",
    H + "connector Pin\n  Real v;\n  flow Real i;\nend Pin;\n\nmodel R\n  Pin p, n;\n  parameter Real r = 10;\n"
    "equation\n  p.v - n.v = r * p.i;\n  p.i + n.i = 0;\nend R;\n\nmodel Net\n  R r1, r2(r = 5);\nequation\n"
    "  connect(r1.n, r2.p);\nend Net;\n",
    "model Arr\n  parameter Integer n = 3;\n  Real x[3];\n  Real s;\n  Boolean up;\nequation\n"
    "  for i in 1:3 loop\n    x[i] = i * s;\n  end for;\n  up = s > 0.5;\n  s = if up then 1.0 else 2.0;\nend Arr;\n",
    H + "function sq\n  input Real u;\n  output Real y;\nalgorithm\n  y := u * u;\nend sq;\n\n"
    "model UseF\n  Real a, b;\nequation\n  a = sq(b) + sin(b);\n  der(b) = 1;\nend UseF;\n",
    "model Mods\n  Real x(start = 1, min = 0, max = 10, nominal = 2);\n  input Real u(fixed = false);\n"
    "  output Real y;\n  discrete Real d;\n  constant Integer c = 4;\ninitial equation\n  x = 0.5;\nequation\n"
    "  der(x) = u - x / c;\n  y = x ^ 2 - (-x) * 3;\n  when x > 5 then\n    d = pre(d) + 1;\n  end when;\nend Mods;\n",
    H + "block Gain \"a gain block\"\n  parameter Real k = 1 \"gain\";\n  input Real u;\n  output Real y;\nequation\n"
    "  y = k * u;\nend Gain;\n\nmodel Chain\n  Gain g1(k = 2), g2(k = 0.5);\n  Real z;\nequation\n  g1.u = z;\n"
    "  g2.u = g1.y;\n  z = time;\nend Chain;\n",
    H + "package Lib\n  type Length = Real(unit = \"m\", min = 0);\n  model Tank\n    Length h(start = 1);\n"
    "    parameter Real a = 0.1;\n  equation\n    der(h) = -a * sqrt(h);\n  end Tank;\nend Lib;\n\n"
    "model Plant\n  Lib.Tank t1, t2(a = 0.2);\n  Real total;\nequation\n  total = t1.h + t2.h;\nend Plant;\n",
]
BREAKS = ("drop_semicolon", "unbalanced_end", "stray_token")


def broken_variant(text, kind):
    """All three break the text after its first 64 characters (for the texts
    with the shared header), so variant and original share a long prefix."""
    if kind == "drop_semicolon":
        k = text.rindex(";")
        return text[:k] + text[k + 1:]
    if kind == "unbalanced_end":
        return text[: text.rindex("end ")]
    if kind == "stray_token":
        k = text.rindex("end ")
        return text[:k] + "then " + text[k:]
    raise AssertionError(kind)


TWINS = ("cmt_a", "cmt_b", "str_ws", "trail_ws")
TWIN_CMT_OK = (0, 1, 2, 3, 4, 6, 7, 8, 9)  # first equation after "equation\n" fits on one line
TWIN_STR_OK = (8, 9)  # texts with a string literal that contains a blank or can take one


def twin_variant(text, kind):
    """Valid texts that differ from each other (or from the original) only in
    layout that MATTERS: a line break ending a // comment, blanks inside a string
    literal.  cmt_a and cmt_b of one text collide under any key that normalises
    whitespace, yet cmt_b has one equation fewer."""
    if kind == "cmt_a":
        return text.replace("equation\n", "equation // first equation follows\n", 1)
    if kind == "cmt_b":
        return text.replace("equation\n", "equation // first equation follows ", 1)
    if kind == "str_ws":
        k = text.index('"')
        j = text.index('"', k + 1)
        return text[:k] + text[k:j].replace(" ", "   ") + " " + text[j:]
    if kind == "trail_ws":
        return text + "\n   \n"
    raise AssertionError(kind)


def text_of(entry):
    if entry[0] == "v":
        return VALID[entry[1]]
    if entry[0] == "t":
        return twin_variant(VALID[entry[1]], entry[2])
    return broken_variant(VALID[entry[1]], entry[2])


def sha(text):
    return hashlib.sha256(text.encode("utf-8")).hexdigest()


# --------------------------------------------------------------------------
# operation domain
# --------------------------------------------------------------------------
DAYS = (0, 1, 30)
VERSIONS = ("1.0", "1.1", "1.0.dirty")
FOREIGN_VERSIONS = ("0.9", "2.0")  # never the current version
HOURS = (1, 25, 24 * 31)
ENTRY_KINDS = ("junk", "truncated", "empty", "missing_class", "missing_module")
LAYOUT_HOW = ("extra_column", "renamed_column", "dropped", "retyped_column", "no_primary_key", "reordered_columns")
FILE_KINDS = ("text", "truncated", "zero", "index_swap")
TRUNC_SIZES = (10, 100, 1000, 4096, 5000, 8192)
EVENTS = ("reload", "version_change", "expiry", "corrupt_entry", "wrong_layout", "corrupt_file", "delete_db")

MODELS_COLUMNS = [
    (0, "txt_hash", "TEXT", 0, None, 1),
    (1, "pymoca_version", "TEXT", 0, None, 2),
    (2, "data", "BLOB", 0, None, 0),
    (3, "last_hit", "TIMESTAMP INTEGER", 0, None, 0),
]
CREATE = {
    ("models", "extra_column"): "CREATE TABLE models (txt_hash TEXT, pymoca_version TEXT, data BLOB, "
    "last_hit TIMESTAMP INTEGER, extra TEXT, PRIMARY KEY (txt_hash, pymoca_version))",
    ("models", "renamed_column"): "CREATE TABLE models (txt_hash TEXT, pymoca_version TEXT, datax BLOB, "
    "last_hit TIMESTAMP INTEGER, PRIMARY KEY (txt_hash, pymoca_version))",
    ("metadata", "extra_column"): "CREATE TABLE metadata (key TEXT, value TEXT, extra TEXT, PRIMARY KEY (key))",
    ("metadata", "renamed_column"): "CREATE TABLE metadata (key TEXT, valuex TEXT, PRIMARY KEY (key))",
}
# same column names, different declared types / key / order: the table is rebuilt and its rows are kept
REBUILD = {
    ("models", "retyped_column"): "(txt_hash TEXT, pymoca_version TEXT, data BLOB, last_hit TEXT, PRIMARY KEY (txt_hash, pymoca_version))",
    ("models", "no_primary_key"): "(txt_hash TEXT, pymoca_version TEXT, data BLOB, last_hit TIMESTAMP INTEGER)",
    ("models", "reordered_columns"): "(pymoca_version TEXT, txt_hash TEXT, data BLOB, last_hit TIMESTAMP INTEGER, "
    "PRIMARY KEY (txt_hash, pymoca_version))",
    ("metadata", "retyped_column"): "(key TEXT, value INTEGER, PRIMARY KEY (key))",
    ("metadata", "no_primary_key"): "(key TEXT, value TEXT)",
    ("metadata", "reordered_columns"): "(value TEXT, key TEXT, PRIMARY KEY (key))",
}
COLUMNS = {"models": "txt_hash, pymoca_version, data, last_hit", "metadata": "key, value"}
ALTER = {
    ("models", "extra_column"): "ALTER TABLE models ADD COLUMN extra TEXT",
    ("models", "renamed_column"): "ALTER TABLE models RENAME COLUMN data TO datax",
    ("metadata", "extra_column"): "ALTER TABLE metadata ADD COLUMN extra TEXT",
    ("metadata", "renamed_column"): "ALTER TABLE metadata RENAME COLUMN value TO valuex",
}
DAY_US = 86400 * 10**6
KNOWN_UNPICKLE = "corrupt_entry:non_UnpicklingError"
# exploration switch (not used by ./check): do not reload after structural damage
INPROCESS_DAMAGE = bool(os.environ.get("VERIF_C01_INPROCESS"))


class Clock:
    """Stands in for the `time` module inside pymoca.parser: no wall clock,
    strictly increasing (1 microsecond per reading)."""

    def __init__(self, ns=1_700_000_000 * 10**9):
        self.ns = ns

    def time_ns(self):
        self.ns += 1000
        return self.ns

    def peek_us(self):
        return self.ns // 1000

    def advance_hours(self, h):
        self.ns += int(h) * 3600 * 10**9


def _quiet():
    # ANTLR's console listener prints every syntax error of the broken texts
    return contextlib.redirect_stderr(io.StringIO())


def _unpickle_failure(blob):
    """Exception class name pickle.loads raises on blob, or None if it loads."""
    try:
        pickle.loads(blob)
    except Exception as e:  # noqa: BLE001 - any failure counts as 'does not unpickle'
        return type(e).__name__
    return None


class Sim:
    """Executes abstract operations on one cache folder and checks the oracle.
    Behaviour is a function of (pool, operations) only."""

    def __init__(self, ctx, pool):
        self.ctx = ctx
        self.pool_spec = pool
        self.texts = [text_of(e) for e in pool]
        self.is_broken = [e[0] == "b" for e in pool]
        self.hashes = [sha(t) for t in self.texts]
        self.idx_of_hash = {h: i for i, h in enumerate(self.hashes)}
        self.folder = Path(tempfile.mkdtemp(prefix="c01_", dir=str(ctx.scratch)))
        self.clock = Clock()
        self.version = pin_version(VERSIONS[0])
        self.P = importlib.import_module("pymoca.parser")
        self.P.time = self.clock
        self.db = self.folder / self.P.DEFAULT_MODEL_CACHE_DB
        self.initialized = False  # model of "this process has checked/pruned the db" (classification only)
        self.events = []  # event kinds in the history so far, in order of first occurrence
        self.since_parse = []  # operations since the previous parse call
        self.planted = {}  # (hash, version) -> blob written by foreign_entry
        self.canon_memo = {}  # blob -> canonical tree text, or None if it does not unpickle
        self.ref = []
        for i, t in enumerate(self.texts):
            out = self._uncached(t)
            self._check_construction(i, out)
            self.ref.append(out[1])
        self.nparse = 0

    def close(self):
        shutil.rmtree(self.folder, ignore_errors=True)

    # ---- observation ---------------------------------------------------
    def _outcome(self, fn, where):
        """('value', canonical text or None) | ('raise', class name, exception)."""
        try:
            with _quiet():
                tree = fn()
        except Exception as e:  # noqa: BLE001
            if pymoca_frame(e) == "?":
                raise
            return ("raise", type(e).__name__, e)
        if tree is None:
            return ("value", None)
        return ("value", tree_canon(tree))

    def _uncached(self, text):
        return self._outcome(lambda: self.P.parse(text, bypass_cache=True), "uncached")

    def _check_construction(self, i, out):
        if out[0] == "raise":
            raise Violation(exc_kind(out[2], "uncached"), "uncached parse of pool text %r raised %s" % (self.pool_spec[i], out[1]))
        if (out[1] is None) != self.is_broken[i]:
            raise Violation(
                "uncached_parse_vs_construction:" + ("tree_for_broken_text" if self.is_broken[i] else "none_for_valid_text"),
                "pool text %r" % (self.pool_spec[i],),
            )

    def _canon_of_blob(self, blob):
        blob = bytes(blob) if blob is not None else b""
        if blob not in self.canon_memo:
            try:
                obj = pickle.loads(blob)
            except Exception:  # noqa: BLE001 - entry does not unpickle
                self.canon_memo[blob] = None
            else:
                try:
                    self.canon_memo[blob] = "None" if obj is None else tree_canon(obj)
                except Exception:  # noqa: BLE001 - unpickles to something that is not a tree
                    self.canon_memo[blob] = "<%s>" % type(obj).__name__
        return self.canon_memo[blob]

    def read_rows(self):
        """{(hash, version): (blob, last_hit)} or None when the file is not a
        valid database with the expected `models` table."""
        if not self.db.exists():
            return None
        conn = None
        try:
            conn = sqlite3.connect("file:%s?mode=ro" % self.db, uri=True)
            cols = conn.execute("PRAGMA table_info('models')").fetchall()
            if cols != MODELS_COLUMNS:
                return None
            rows = conn.execute("SELECT txt_hash, pymoca_version, data, last_hit FROM models").fetchall()
        except sqlite3.DatabaseError:
            return None
        finally:
            if conn is not None:
                conn.close()
        return {(h, v): (d, lh) for h, v, d, lh in rows}

    def check_db(self):
        rows = self.read_rows()
        if rows is None:
            return
        for (h, v), (blob, _lh) in rows.items():
            if v in FOREIGN_VERSIONS:
                # planted by foreign_entry (possibly damaged by corrupt_entry since); pymoca only
                # ever writes rows for the current version, which is never a foreign one
                continue
            i = self.idx_of_hash.get(h)
            if i is not None and self.is_broken[i]:
                raise Violation("failed_parse_stored", "row (%s.., %s) is keyed by the hash of broken text %r" % (h[:12], v, self.pool_spec[i]))
            canon = self._canon_of_blob(blob)
            if canon is None:
                continue
            if i is None:
                self.ctx.extra["rows_with_unknown_hash"] += 1
                continue
            if canon != self.ref[i]:
                raise Violation("stored_tree_differs", "row (%s.., %s) unpickles to a tree different from the uncached parse of %r" % (h[:12], v, self.pool_spec[i]))

    # ---- operations ----------------------------------------------------
    def _event(self, kind):
        if kind not in self.events:
            self.events.append(kind)

    def _reload(self):
        self.P = importlib.reload(self.P)
        self.P.time = self.clock
        self.initialized = False

    def apply(self, op):
        """Execute one operation, check the oracle, return classification info
        for parse calls (None otherwise).  Raises Violation."""
        name = op[0]
        info = getattr(self, "op_" + name)(*op[1:])
        if name != "parse":
            self.since_parse.append(name)
        self.check_db()
        return info

    def op_parse(self, i, days, upd, bypass):
        text, h = self.texts[i], self.hashes[i]
        dirty = self.version.endswith(".dirty")
        cached_mode = not bypass and not dirty
        labels = ["text:broken" if self.is_broken[i] else "text:valid", "days=%d" % days, "update_last_hit=%s" % bool(upd)]
        hit = False
        if bypass:
            labels.append("call:bypass")
        elif dirty:
            labels.append("call:dirty")
        else:
            rows = self.read_rows()
            if rows is None:
                labels.append("miss:no_usable_db")
            else:
                cutoff = self.clock.peek_us() - days * DAY_US
                expired = [k for k, (_b, lh) in rows.items() if lh < cutoff] if not self.initialized else []
                if expired:
                    self._event("expiry")
                    labels.append("prunes_entries")
                row = rows.get((h, self.version))
                if row is None:
                    labels.append("miss:absent")
                elif (h, self.version) in expired:
                    labels.append("miss:pruned")
                elif self._canon_of_blob(row[0]) is None:
                    labels.append("miss:unpicklable")
                else:
                    hit = True
                    labels.append("hit")
            if not self.initialized:
                labels.append("initializing_call")
        ref = self._uncached(text)
        self._check_construction(i, ref)  # the reference is a value from here on, never a raise
        got = self._outcome(
            lambda: self.P.parse(
                text,
                model_cache_folder=self.folder,
                cache_expiration_days=days,
                always_update_last_hit=upd,
                bypass_cache=bypass,
            ),
            "parse",
        )
        if cached_mode:
            self.initialized = True
        what = "parse #%d of %r (%s)" % (self.nparse, self.pool_spec[i], ",".join(labels))
        self.nparse += 1
        if got[0] == "raise":
            raise Violation(exc_kind(got[2], "parse"), "%s raised %s: %s" % (what, got[1], str(got[2])[:200]))
        if (got[1] is None) != (ref[1] is None):
            raise Violation(
                "none_mismatch:" + ("tree_for_broken_text" if ref[1] is None else "none_for_valid_text"),
                what,
            )
        if got[1] != ref[1]:
            raise Violation("cached_tree_differs:" + ("hit" if hit else "no_hit"), what)
        nontrivial = hit and bool(self.events)
        if hit:
            labels += ["hit_after:" + e for e in self.events]
        labels += ["since_last_parse:" + n for n in sorted(set(self.since_parse))]
        self.since_parse = []
        return dict(nontrivial=nontrivial, labels=labels)

    def op_reload(self):
        self._reload()
        self._event("reload")

    def op_set_version(self, v):
        if v != self.version:
            self._event("version_change")
        self.version = pin_version(v)

    def op_advance_clock(self, hours):
        self.clock.advance_hours(hours)

    def _bad_blob(self, kind, blob, frac):
        blob = bytes(blob) if blob is not None else b""
        if kind == "junk":
            return b"not a pickle \x00\xff"
        if kind == "empty":
            return b""
        if kind == "truncated":
            n = max(1, min(len(blob) - 1, int(len(blob) * frac / 10.0)))
            while n > 1 and _unpickle_failure(blob[:n]) is None:
                n -= 1
            return blob[:n]
        if kind == "missing_class":
            out = blob.replace(b"\x04Tree", b"\x04Trex")
            return out if out != blob and _unpickle_failure(out) else b"cpymoca.ast\nNoSuchClassVerif\n."
        if kind == "missing_module":
            out = blob.replace(b"pymoca.ast", b"pymoca.asx")
            return out if out != blob and _unpickle_failure(out) else b"cpymoca_gone.ast\nTree\n."
        raise AssertionError(kind)

    def op_corrupt_entry(self, i, kind, frac):
        rows = self.read_rows()
        targets = [] if rows is None else [(k, v[0]) for k, v in sorted(rows.items()) if k[0] == self.hashes[i]]
        if not targets:
            self.ctx.extra["noop:corrupt_entry"] += 1
            return
        conn = sqlite3.connect(str(self.db))
        try:
            for (h, v), blob in targets:
                bad = self._bad_blob(kind, blob, frac)
                exc = _unpickle_failure(bad)
                if exc is None:  # must provably not unpickle
                    self.ctx.extra["noop:corrupt_entry_still_unpickles"] += 1
                    continue
                if exc != "UnpicklingError" and self.ctx.known(KNOWN_UNPICKLE):
                    self.ctx.exclude(KNOWN_UNPICKLE)
                    continue
                self.ctx.extra["corrupt_entry:%s->%s" % (kind, exc)] += 1
                conn.execute("UPDATE models SET data=? WHERE txt_hash=? AND pymoca_version=?", (bad, h, v))
                self._event("corrupt_entry")
            conn.commit()
        finally:
            conn.close()

    def _after_structural_damage(self):
        if not INPROCESS_DAMAGE:
            self._reload()

    def op_wrong_layout(self, table, how):
        try:
            conn = sqlite3.connect(str(self.db))
            try:
                exists = conn.execute("SELECT name FROM sqlite_master WHERE type='table' AND name=?", (table,)).fetchone()
                if how == "dropped":
                    if not exists:
                        self.ctx.extra["noop:wrong_layout"] += 1
                        return
                    conn.execute("DROP TABLE %s" % table)
                elif (table, how) in REBUILD:
                    if exists:
                        conn.execute("CREATE TABLE vf_rebuilt %s" % REBUILD[(table, how)])
                        conn.execute("INSERT INTO vf_rebuilt (%s) SELECT %s FROM %s" % (COLUMNS[table], COLUMNS[table], table))
                        conn.execute("DROP TABLE %s" % table)
                        conn.execute("ALTER TABLE vf_rebuilt RENAME TO %s" % table)
                    else:
                        conn.execute("CREATE TABLE %s %s" % (table, REBUILD[(table, how)]))
                elif exists:
                    conn.execute(ALTER[(table, how)])
                else:
                    conn.execute(CREATE[(table, how)])
                conn.commit()
            finally:
                conn.close()
        except sqlite3.DatabaseError:
            # the file is not a database at the moment, or the table already has that damage
            self.ctx.extra["noop:wrong_layout"] += 1
            return
        self._event("wrong_layout")
        self._after_structural_damage()

    def op_corrupt_file(self, kind, n):
        if kind == "text":
            self.db.write_text("This is not a valid SQLite database file. " * 8)
        elif kind == "zero":
            self.db.write_bytes(b"")
        elif kind == "truncated":
            if not self.db.exists() or self.db.stat().st_size <= n:
                self.ctx.extra["noop:corrupt_file"] += 1
                return
            self.db.write_bytes(self.db.read_bytes()[:n])
        elif kind == "index_swap":
            # Page-wise well-formed, but the primary-key INDEX entry of one cached text now carries
            # the hash of another pool text, so index and table disagree (a lookup through the
            # index would serve the wrong tree).  Same length, so the b-tree cells stay valid.
            if not self.db.exists():
                self.ctx.extra["noop:corrupt_file"] += 1
                return
            data = bytearray(self.db.read_bytes())
            valid = [k for k in range(len(self.texts)) if not self.is_broken[k]]
            done = False
            for off in range(len(valid)):
                k = valid[(n + off) % len(valid)]
                hk = self.hashes[k].encode()
                others = [j for j in valid if self.hashes[j] != self.hashes[k] and self.ref[j] != self.ref[k]]
                if not others:
                    continue
                hj = self.hashes[others[n % len(others)]].encode()
                pos, spots = data.find(hk), []
                while pos >= 0:
                    spots.append(pos)
                    pos = data.find(hk, pos + 1)
                for pos in spots:
                    tail = bytes(data[pos + len(hk): pos + len(hk) + 40])
                    if b"\x80" in tail[:24]:
                        continue  # the table record: hash, version, then the pickle (starts with 0x80)
                    data[pos: pos + len(hk)] = hj
                    done = True
                    break
                if done:
                    break
            if not done:
                self.ctx.extra["noop:corrupt_file"] += 1
                return
            self.db.write_bytes(bytes(data))
            self.ctx.extra["index_swap_applied"] += 1
        else:
            raise AssertionError(kind)
        self._event("corrupt_file")
        self._after_structural_damage()

    def op_delete_db(self):
        if not self.db.exists():
            self.ctx.extra["noop:delete_db"] += 1
            return
        os.remove(self.db)
        self._event("delete_db")
        self._after_structural_damage()

    def op_foreign_entry(self, i, j, fv):
        """A row for text i written 'by another pymoca version': it holds a
        different tree (the one of valid pool text j)."""
        valid = [k for k in range(len(self.texts)) if not self.is_broken[k] and self.hashes[k] != self.hashes[i] and self.ref[k] != self.ref[i]]
        rows = self.read_rows()
        if rows is None or not valid:
            self.ctx.extra["noop:foreign_entry"] += 1
            return
        j = valid[j % len(valid)]
        with _quiet():
            blob = pickle.dumps(self.P.parse(self.texts[j], bypass_cache=True))
        key = (self.hashes[i], fv)
        conn = sqlite3.connect(str(self.db))
        try:
            conn.execute(
                "INSERT OR REPLACE INTO models (txt_hash, pymoca_version, data, last_hit) VALUES (?, ?, ?, ?)",
                (key[0], key[1], blob, self.clock.peek_us()),
            )
            conn.commit()
        finally:
            conn.close()
        self.planted[key] = blob


# --------------------------------------------------------------------------
# generated search
# --------------------------------------------------------------------------
def make_machine(ctx):
    npool = st.integers(0, 5)

    class Machine(RuleBasedStateMachine):
        def __init__(self):
            super().__init__()
            self.sim = None
            self.pool = None
            self.hist = []
            self.dead = False

        def case(self):
            return {"pool": self.pool, "ops": list(self.hist)}

        def _fail(self, v):
            self.dead = True
            ctx.evaluations += 1
            ctx.fail(v, self.case())

        @initialize(
            valid=st.lists(st.integers(0, len(VALID) - 1), min_size=3, max_size=4, unique=True),
            broken=st.lists(st.tuples(st.integers(0, 3), st.sampled_from(BREAKS)), min_size=1, max_size=2),
            twins=st.lists(st.tuples(st.integers(0, 3), st.sampled_from(["cmt", "cmt", "str_ws", "trail_ws"])), min_size=0, max_size=2),
        )
        def start(self, valid, broken, twins):
            if ctx.over_budget():
                self.dead = True
                return
            pool = [["v", v] for v in valid]
            for k, kind in broken:
                e = ["b", valid[k % len(valid)], kind]
                if e not in pool:
                    pool.append(e)
            for k, kind in twins:
                v = valid[k % len(valid)]
                if kind == "cmt" and v in TWIN_CMT_OK:
                    new = [["t", v, "cmt_a"], ["t", v, "cmt_b"]]
                elif kind == "str_ws" and v in TWIN_STR_OK:
                    new = [["t", v, "str_ws"]]
                elif kind == "trail_ws":
                    new = [["t", v, "trail_ws"]]
                else:
                    new = []
                for e in new:
                    if e not in pool:
                        pool.append(e)
            self.pool = pool
            try:
                self.sim = Sim(ctx, pool)
            except Violation as v:
                self._fail(v)

        def _do(self, op):
            if self.dead:
                return
            op[1:] = [a % len(self.pool) if isinstance(a, _PoolIndex) else a for a in op[1:]]
            self.hist.append(op)
            ctx.extra["op:" + op[0]] += 1
            try:
                info = self.sim.apply(op)
            except Violation as v:
                return self._fail(v)
            except Exception as e:  # noqa: BLE001 - pymoca frames -> violation, else harness error
                return self._fail(as_violation(e, op[0]))
            if info is not None:
                ctx.record(self.case(), info["nontrivial"], labels=info["labels"], sample=self.case())

        # Four rules emit the parse operation (Hypothesis picks rules uniformly, and a history
        # needs several parses of the same text around each event to reach a hit after it).
        @rule(i=npool, days=st.sampled_from(DAYS), upd=st.booleans(), bypass=st.sampled_from((False, False, False, True)))
        def parse(self, i, days, upd, bypass):
            self._do(["parse", _PoolIndex(i), days, upd, bypass])

        @rule(k=st.integers(0, 5), days=st.sampled_from((30, 30, 1, 0)), upd=st.booleans())
        def parse_again(self, k, days, upd):
            # prefers a text that was parsed before
            seen = [op[1] for op in self.hist if op[0] == "parse"]
            i = seen[k % len(seen)] if seen else k
            self._do(["parse", _PoolIndex(i), days, upd, False])

        @rule(k=st.integers(0, 5), days=st.sampled_from((30, 30, 1)), upd=st.booleans())
        def parse_stored(self, k, days, upd):
            # prefers a text that has a row in the database right now (any version)
            stored = self._stored()
            i = stored[k % len(stored)] if stored else k
            self._do(["parse", _PoolIndex(i), days, upd, False])

        @rule(i=npool)
        def parse_defaults(self, i):
            self._do(["parse", _PoolIndex(i), 30, False, False])

        def _stored(self):
            if self.dead:
                return []
            rows = self.sim.read_rows() or {}
            return sorted({self.sim.idx_of_hash[h] for h, _v in rows if h in self.sim.idx_of_hash})

        @rule()
        def reload(self):
            self._do(["reload"])

        @rule(v=st.sampled_from(VERSIONS))
        def set_version(self, v):
            self._do(["set_version", v])

        @rule(hours=st.sampled_from(HOURS))
        def advance_clock(self, hours):
            self._do(["advance_clock", hours])

        @rule(k=st.integers(0, 5), kind=st.sampled_from(ENTRY_KINDS), frac=st.integers(1, 9))
        def corrupt_entry(self, k, kind, frac):
            stored = self._stored()
            i = stored[k % len(stored)] if stored else k
            self._do(["corrupt_entry", _PoolIndex(i), kind, frac])

        @rule(i=npool, j=st.integers(0, 3), fv=st.sampled_from(FOREIGN_VERSIONS))
        def foreign_entry(self, i, j, fv):
            self._do(["foreign_entry", _PoolIndex(i), j, fv])

        # structural damage: one rule, three operation kinds (keeps the share of steps that
        # wipe the whole cache below the share that exercise it)
        @rule(op=st.one_of(
            st.tuples(st.just("wrong_layout"), st.sampled_from(("models", "metadata")), st.sampled_from(LAYOUT_HOW)),
            st.tuples(st.just("corrupt_file"), st.sampled_from(FILE_KINDS), st.sampled_from(TRUNC_SIZES)),
            st.tuples(st.just("delete_db")),
        ))
        def damage(self, op):
            op = list(op)
            if op[0] == "corrupt_file" and op[1] != "truncated":
                op[2] = 0
            self._do(op)

        def teardown(self):
            if self.sim is not None:
                self.sim.close()
            ctx.extra["machines"] += 1
            if self.hist:
                ctx.extra["machines_with_%s_events" % min(len(self.sim.events), 5)] += 1

    return Machine


class _PoolIndex(int):
    """Marks an argument that is reduced modulo the pool size before it is recorded."""


def shard(ctx):
    n = ctx.share(150, 3000)
    M = make_machine(ctx)
    run_state_machine_as_test(hypothesis.seed(ctx.hseed)(M), settings=hsettings(n, stateful_steps=ctx.pick(25, 50)))
    pin_version()


def replay(ctx, case):
    sim = Sim(ctx, case["pool"])
    try:
        for op in case["ops"]:
            sim.apply(list(op))
    finally:
        sim.close()
        pin_version()


MANIFEST = dict(
    text="Stateful model-based search over cache histories: every cached parse() in a random history "
    "of parses, reloads, version changes, clock advances, unpicklable entries, wrong table layouts, "
    "corrupt/deleted database files and foreign-version rows is compared structurally with an "
    "uncached parse of the same text (None exactly for the syntactically broken texts, no "
    "exception), and after every step the database is read back independently: no row for a "
    "failed parse, every loadable row equals the uncached tree of its text.  Sampled, not "
    "exhaustive; the pool is 10 small hand-written models and 3 ways of breaking them.",
    note="Trusts parse(text, bypass_cache=True) as the reference for tree content (the cache layer is "
    "what is under test), the construction of the broken texts, the harness clock that replaces "
    "pymoca.parser.time, and that importlib.reload(pymoca.parser) models a new process; table/file "
    "damage is only inflicted between 'processes'.",
    technique="stateful model-based testing (Hypothesis rule-based machine), differential against the uncached parse + independent database invariant",
)
