"""C17 - Alias relation is a signed equivalence under any operation history.

Oracle: a signed union-find kept by the harness (never reads the relation's
internals to decide what is right).  Two searches:

* closure search: breadth-first exploration of the *reachable state graph* of
  AliasRelation over a small universe, to a fixpoint (or a depth bound) - every
  operation is applied in every reachable state, so every history up to state
  equivalence is covered; in every state a copy is taken, every operation is
  applied to the copy and the source is re-checked.
* random histories: Hypothesis rule-based machine over a larger universe with
  several live objects (copies of copies).
"""
import copy as _copy
import itertools

import hypothesis
from hypothesis import strategies as st
from hypothesis.stateful import RuleBasedStateMachine, invariant, precondition, rule, run_state_machine_as_test

from vf.core import Violation, as_violation, case_hash, hsettings

ID = "C17"
LEVEL = "exploration"
RULE = (
    "closure search: every (reachable state, operation) pair over the universe, explored "
    "breadth-first up to state equivalence (state = the relation's attribute values incl. "
    "set-sharing pattern + the reference union-find); non-trivial = the operation changes the "
    "relation (merge or removal).  random histories: rule-based machines over 5 names with "
    "copies; non-trivial = history contains a merge of two non-trivial classes through a "
    "negative link; distinct = distinct operation sequence."
)
ASSUMPTIONS = [
    "operations never relate a variable to its own negation (precondition from the statement, "
    "decided on the reference model)",
    "remove(name) is only defined to have an effect when name is the class's canonical name "
    "(that is how model.py uses it); for other names the relation must stay unchanged",
    "which member is canonical is not specified: any member is accepted as long as it is "
    "unique per class and signs are consistent",
]
SHARDS = {"quick": 16, "thorough": 16}


def neg(v):
    return v[1:] if v[0] == "-" else "-" + v


def bare(v):
    return v[1:] if v[0] == "-" else v


def sgn(v):
    return -1 if v[0] == "-" else 1


class RefRel:
    """Signed union-find: name -> (root, sign) meaning name == sign * root."""

    def __init__(self, names):
        self.names = list(names)
        self.m = {n: (n, 1) for n in names}

    def copy(self):
        r = RefRel(self.names)
        r.m = dict(self.m)
        return r

    def lit(self, v):
        root, s = self.m[bare(v)]
        return root, s * sgn(v)

    def conflict(self, x, y):
        rx, sx = self.lit(x)
        ry, sy = self.lit(y)
        return rx == ry and sx != sy

    def add(self, x, y):
        rx, sx = self.lit(x)
        ry, sy = self.lit(y)
        if rx == ry:
            return False
        # x == y  =>  sx*rx == sy*ry  =>  ry == sx*sy*rx
        for n, (r, s) in list(self.m.items()):
            if r == ry:
                self.m[n] = (rx, s * sx * sy)
        return True

    def members(self, name):
        root = self.m[name][0]
        return [n for n in self.names if self.m[n][0] == root]

    def remove_class(self, name):
        for n in self.members(name):
            self.m[n] = (n, 1)

    def cls(self, v):
        """All signed literals equal to literal v (v included)."""
        root, s = self.lit(v)
        out = set()
        for n in self.names:
            r, sn = self.m[n]
            if r == root:
                out.add(n if sn == s else "-" + n)
        return out

    def nontrivial_classes(self):
        seen = {}
        for n in self.names:
            seen.setdefault(self.m[n][0], []).append(n)
        return [v for v in seen.values() if len(v) > 1]

    def key(self):
        classes = []
        for c in self.nontrivial_classes():
            base = c[0]
            classes.append(tuple(sorted(self.cls(base))))
        return tuple(sorted(classes))


def check_state(rel, ref, what="state"):
    """Everything the statement says about observable state."""
    names = ref.names
    lits = list(names) + ["-" + n for n in names]
    for v in lits:
        exp = ref.cls(v)
        got = rel.aliases(v)
        if set(got) != exp:
            raise Violation("aliases_mismatch", "%s: aliases(%r)=%r expected %r" % (what, v, sorted(got), sorted(exp)))
    canon_of = {}
    for v in lits:
        got = rel.canonical_signed(v)
        if not (isinstance(got, tuple) and len(got) == 2):
            raise Violation("canonical_shape", "%s: canonical_signed(%r)=%r" % (what, v, got))
        c, s = got
        if s not in (1, -1) or not isinstance(c, str) or c.startswith("-") or c not in names:
            raise Violation("canonical_shape", "%s: canonical_signed(%r)=%r" % (what, v, got))
        # v == s*c must hold in the reference relation
        want = c if s == 1 else "-" + c
        if want not in ref.cls(v):
            raise Violation(
                "canonical_sign", "%s: canonical_signed(%r)=%r but %r is not in class %r" % (what, v, got, want, sorted(ref.cls(v)))
            )
        canon_of[v] = c
    for cl in ref.nontrivial_classes():
        cs = {canon_of[n] for n in cl} | {canon_of["-" + n] for n in cl}
        if len(cs) != 1:
            raise Violation("canonical_not_unique", "%s: class %r has canonicals %r" % (what, cl, sorted(cs)))
    exp_canon = {canon_of[cl[0]] for cl in ref.nontrivial_classes()}
    got_canon = set(rel.canonical_variables)
    if got_canon != exp_canon:
        raise Violation("canonical_variables", "%s: canonical_variables=%r expected %r" % (what, sorted(got_canon), sorted(exp_canon)))
    it = list(rel)
    if len(it) != len(ref.nontrivial_classes()):
        raise Violation("iteration_count", "%s: iteration yields %d entries for %d non-trivial classes" % (what, len(it), len(ref.nontrivial_classes())))
    seen = set()
    for c, als in it:
        if c in seen:
            raise Violation("iteration_duplicate", "%s: canonical %r yielded twice" % (what, c))
        seen.add(c)
        exp = ref.cls(c) - {c}
        if set(als) != exp:
            raise Violation("iteration_aliases", "%s: iter gives %r -> %r expected %r" % (what, c, sorted(als), sorted(exp)))
    if seen != exp_canon:
        raise Violation("iteration_canonicals", "%s: iterated %r expected %r" % (what, sorted(seen), sorted(exp_canon)))


def apply_op(rel, ref, op):
    """Apply op to implementation and reference.  Returns (applied, changed)."""
    if op[0] == "add":
        _, x, y = op
        if bare(x) == bare(y) and x != y:
            return False, False
        if ref.conflict(x, y):
            return False, False  # precondition of the property
        rel.add(x, y)
        changed = ref.add(x, y)
        return True, changed
    elif op[0] == "remove":
        _, n = op
        is_canon = n in set(rel.canonical_variables)
        rel.remove(n)
        if is_canon and len(ref.members(n)) > 1:
            ref.remove_class(n)
            return True, True
        return True, False
    raise AssertionError(op)


def impl_key(rel):
    """Canonical form of the relation's whole attribute state, including which
    dictionary values are the same set object (add() mutates shared sets)."""
    out = []
    for attr in sorted(vars(rel)):
        val = getattr(rel, attr)
        if isinstance(val, dict):
            ids = {}
            items = []
            for k in sorted(val, key=str):
                v = val[k]
                if isinstance(v, (set, frozenset)):
                    idx = ids.setdefault(id(v), len(ids))
                    items.append((k, ("set", idx, tuple(sorted(v)))))
                else:
                    items.append((k, repr(v)))
            out.append((attr, tuple(items)))
        elif isinstance(val, (set, frozenset)):
            out.append((attr, tuple(sorted(val))))
        else:
            out.append((attr, repr(val)))
    return tuple(out)


def all_ops(names):
    lits = list(names) + ["-" + n for n in names]
    ops = [("add", x, y) for x in lits for y in lits]
    ops += [("remove", n) for n in names] + [("remove", "-" + names[0])]
    return ops


def closure_search(ctx, names, max_depth, max_states):
    from pymoca.backends.casadi.alias_relation import AliasRelation

    ops = all_ops(names)
    rel0, ref0 = AliasRelation(), RefRel(names)
    check_state(rel0, ref0, "initial")
    frontier = [(rel0, ref0, ())]
    seen = {(impl_key(rel0), ref0.key())}
    depth = 0
    complete = False
    while frontier and depth < max_depth:
        depth += 1
        nxt = []
        for rel, ref, hist in frontier:
            for op in ops:
                r2, f2 = _copy.deepcopy(rel), ref.copy()
                before_src = impl_key(rel)
                try:
                    applied, changed = apply_op(r2, f2, op)
                    if not applied:
                        continue
                    h2 = hist + (op,)
                    check_state(r2, f2, "after %r" % (h2,))
                    # copy independence: copy r2, apply every op to the copy, source intact
                    c = r2.copy()
                    if type(c) is not type(r2):
                        raise Violation("copy_type", "copy() returned %r" % type(c))
                    check_state(c, f2, "copy after %r" % (h2,))
                    src_key = impl_key(r2)
                    for op2 in ops:
                        c2, fc = r2.copy(), f2.copy()
                        ok, _ = apply_op(c2, fc, op2)
                        if not ok:
                            continue
                        ctx.extra["copy_ops"] += 1
                        if impl_key(r2) != src_key:
                            raise Violation("copy_not_independent", "source changed by %r on a copy after %r" % (op2, h2))
                        check_state(c2, fc, "copy+%r after %r" % (op2, h2))
                    check_state(r2, f2, "source after copy ops, %r" % (h2,))
                except Exception as e:  # noqa: BLE001
                    v = as_violation(e, "closure")
                    ctx.evaluations += 1
                    ctx.fail(v, {"kind": "closure", "names": list(names), "ops": [list(o) for o in hist + (op,)]})
                    continue
                if impl_key(rel) != before_src:
                    ctx.fail(Violation("harness_deepcopy_shared", "deepcopy shared state"), {"kind": "closure", "names": list(names), "ops": [list(o) for o in hist + (op,)]})
                ctx.record({"state": case_hash([impl_key(rel), ref.key()]), "op": list(op)}, changed,
                           labels=["closure:" + op[0]],
                           sample={"kind": "closure", "names": list(names), "ops": [list(o) for o in hist + (op,)]})
                k = (impl_key(r2), f2.key())
                if k not in seen:
                    seen.add(k)
                    nxt.append((r2, f2, hist + (op,)))
                    if len(seen) >= max_states:
                        break
            if len(seen) >= max_states:
                break
        frontier = nxt
        if len(seen) >= max_states:
            break
    else:
        complete = not frontier
    ctx.extra["closure_states_%d_names" % len(names)] = len(seen)
    ctx.extra["closure_depth_%d_names" % len(names)] = depth
    ctx.extra["closure_complete_%d_names" % len(names)] = 1 if complete else 0


NAMES5 = ["a", "b", "c", "d", "e"]


def make_machine(ctx):
    from pymoca.backends.casadi.alias_relation import AliasRelation

    lits = NAMES5 + ["-" + n for n in NAMES5]

    class Machine(RuleBasedStateMachine):
        def __init__(self):
            super().__init__()
            self.objs = [(AliasRelation(), RefRel(NAMES5))]
            self.hist = []
            self.dead = False
            self.nt = False

        def _fail(self, v):
            self.dead = True
            ctx.fail(v, {"kind": "history", "names": NAMES5, "ops": self.hist})

        @rule(i=st.integers(0, 3), x=st.sampled_from(lits), y=st.sampled_from(lits))
        def add(self, i, x, y):
            if self.dead:
                return
            rel, ref = self.objs[i % len(self.objs)]
            if bare(x) == bare(y) or ref.conflict(x, y):
                return
            big = len(ref.cls(x)) > 1 and len(ref.cls(y)) > 1 and ref.lit(x)[0] != ref.lit(y)[0]
            negative = sgn(x) * sgn(y) < 0
            self.hist.append(["add", i % len(self.objs), x, y])
            try:
                apply_op(rel, ref, ("add", x, y))
            except Violation as v:
                return self._fail(v)
            except Exception as e:  # noqa: BLE001
                from vf.core import exc_kind
                return self._fail(Violation(exc_kind(e, "add"), str(e)))
            if big and negative:
                self.nt = True

        @rule(i=st.integers(0, 3), n=st.sampled_from(lits))
        def remove(self, i, n):
            if self.dead:
                return
            rel, ref = self.objs[i % len(self.objs)]
            self.hist.append(["remove", i % len(self.objs), n])
            try:
                apply_op(rel, ref, ("remove", n))
            except Exception as e:  # noqa: BLE001
                from vf.core import exc_kind
                return self._fail(Violation(exc_kind(e, "remove"), str(e)))

        @rule(i=st.integers(0, 3))
        def copy(self, i):
            if self.dead or len(self.objs) >= 4:
                return
            rel, ref = self.objs[i % len(self.objs)]
            self.hist.append(["copy", i % len(self.objs)])
            try:
                self.objs.append((rel.copy(), ref.copy()))
            except Exception as e:  # noqa: BLE001
                from vf.core import exc_kind
                return self._fail(Violation(exc_kind(e, "copy"), str(e)))

        @invariant()
        def agrees(self):
            if self.dead:
                return
            try:
                for k, (rel, ref) in enumerate(self.objs):
                    check_state(rel, ref, "object %d after %r" % (k, self.hist[-1:] ))
            except Violation as v:
                self._fail(v)
            except Exception as e:  # noqa: BLE001
                from vf.core import exc_kind
                self._fail(Violation(exc_kind(e, "observe"), str(e)))

        def teardown(self):
            if not self.dead and self.hist:
                ctx.record({"ops": self.hist}, self.nt, labels=["history", "history_with_copy"] if any(o[0] == "copy" for o in self.hist) else ["history"],
                           sample={"kind": "history", "ops": self.hist})

    return Machine


def shard(ctx):
    # closure search: 3 names to a fixpoint on shard 0; 4 names spread by depth bound
    if ctx.shard == 0:
        closure_search(ctx, ["a", "b", "c"], max_depth=ctx.pick(12, 40), max_states=ctx.pick(4000, 200000))
    if ctx.shard == 1:
        closure_search(ctx, ["a", "b", "c", "d"], max_depth=ctx.pick(3, 8), max_states=ctx.pick(1500, 60000))
    n = ctx.share(800, 40000)
    M = make_machine(ctx)
    run_state_machine_as_test(hypothesis.seed(ctx.hseed)(M), settings=hsettings(n, stateful_steps=ctx.pick(14, 30)))


def replay(ctx, case):
    from pymoca.backends.casadi.alias_relation import AliasRelation

    names = case["names"]
    if case["kind"] == "closure":
        rel, ref = AliasRelation(), RefRel(names)
        for op in case["ops"]:
            apply_op(rel, ref, tuple(op))
            check_state(rel, ref, "after %r" % (op,))
            c = rel.copy()
            check_state(c, ref, "copy after %r" % (op,))
            src = impl_key(rel)
            for op2 in all_ops(names):
                c2, fc = rel.copy(), ref.copy()
                ok, _ = apply_op(c2, fc, op2)
                if ok:
                    if impl_key(rel) != src:
                        raise Violation("copy_not_independent", "source changed by %r" % (op2,))
                    check_state(c2, fc, "copy+%r" % (op2,))
            check_state(rel, ref, "source after copy ops")
    else:
        objs = [(AliasRelation(), RefRel(names))]
        for op in case["ops"]:
            if op[0] == "copy":
                rel, ref = objs[op[1]]
                objs.append((rel.copy(), ref.copy()))
            else:
                rel, ref = objs[op[1]]
                apply_op(rel, ref, (op[0],) + tuple(op[2:]))
            for k, (rel, ref) in enumerate(objs):
                check_state(rel, ref, "object %d after %r" % (k, op))


def coverage_extra(tier, cov):
    c = cov.get("counters", {})
    return {"exhaustive": bool(c.get("closure_complete_3_names"))}


MANIFEST = dict(
    text="Model-based search: the reachable state graph of AliasRelation over 3 names is explored "
    "to a fixpoint (every operation in every reachable state, copies included) and random "
    "histories over 5 names with copies of copies are run against a signed union-find; all "
    "observers (aliases, canonical_signed, canonical_variables, iteration) are compared after "
    "every step.  Exhaustive for the 3-name universe up to state equivalence, sampled beyond.",
    note="Trusts the harness's 40-line signed union-find and that AliasRelation's behaviour is a "
    "function of its instance attributes (state equivalence is keyed on all of them).",
    technique="stateful model-based testing (Hypothesis rule-based machine) + bounded-exhaustive state-graph closure against a reference union-find",
)
