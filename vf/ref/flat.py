"""R-flat: reference flattener over an abstract library (vf.gen.lib), and the
canonical forms used to compare it with pymoca's flat class.

instantiate() follows MLS chapters 5 and 7: inherited elements first (in
extends order), then own; a component of class D is instantiated with the
prefix extended by its name; modifications: outermost wins, the extends
clause's override the base class's own, declaration ones are innermost, type
alias ones below those; every expression is renamed with the prefix of the
instance in which it is written."""
from vf.gen.lib import BUILTIN

ATTRS = ("value", "start", "min", "max", "nominal", "fixed", "unit")


def rename(e, prefix):
    """Rename every reference in expression e with the instance prefix."""
    k = e[0]
    if k == "var":
        return ["var", prefix + e[1]]
    if k == "idx":
        return ["idx", prefix + e[1]] + [rename(i, prefix) if isinstance(i, list) else i for i in e[2:]]
    return [k] + [rename(c, prefix) if isinstance(c, list) else c for c in e[1:]]


class Flat:
    def __init__(self):
        self.vars = {}  # name -> dict(type, prefixes, dims, attrs{attr: expr})
        self.order = []
        self.eqs = []  # [lhs, rhs] renamed
        self.ieqs = []


def _elements(lib, cid, ext_mods_out):
    """Effective element list of class cid: [(comp, declaring class id, mods from extends
    clauses on the way, outermost first)]."""
    c = lib.cls(cid)
    out = []
    for e in c.get("extends", []):
        for comp, decl, em in _elements(lib, e["cls"], None):
            mine = [m for m in e.get("mods", []) if m["path"] and m["path"][0] == comp["name"]]
            out.append((comp, decl, mine + em))
    for comp in c.get("comps", []):
        out.append((comp, cid, []))
    return out


def _equations(lib, cid, key):
    c = lib.cls(cid)
    out = []
    for e in c.get("extends", []):
        out += _equations(lib, e["cls"], key)
    out += c.get(key, [])
    return out


def instantiate(lib, cid, prefix="", outer=None, flat=None, top=True, dims=None):
    """outer: modifications from enclosing components, outermost first, as
    (path, attr, expr_already_renamed)."""
    flat = flat if flat is not None else Flat()
    outer = outer or []
    dims = dims or []
    for comp, decl, ext_mods in _elements(lib, cid, None):
        name = comp["name"]
        # modifications that target this element, in precedence order
        mine = [(p[1:], a, e) for (p, a, e) in outer if p and p[0] == name]
        # extends-clause modifications: written in the scope of the class that has the extends clause,
        # instantiated under the same prefix
        mine += [(m["path"][1:], m["attr"], rename(m["expr"], prefix)) for m in ext_mods]
        # declaration modifications (innermost)
        mine += [(list(m["path"]), m["attr"], rename(m["expr"], prefix)) for m in comp.get("mods", [])]
        if comp.get("value") is not None:
            mine.append(([], "value", rename(comp["value"], prefix)))
        t = comp["cls"]
        tdef = None if t in BUILTIN else lib.cls(t)
        if tdef is None or tdef["kind"] == "type":
            base = t if tdef is None else tdef["base"]
            attrs = {}
            for p, a, e in mine:
                if not p and a not in attrs:
                    attrs[a] = e
            if tdef is not None:
                for m in tdef.get("mods", []):
                    if m["attr"] not in attrs:
                        attrs[m["attr"]] = m["expr"]
            prefixes = list(comp.get("prefixes", []))
            if prefix:
                prefixes = [q for q in prefixes if q not in ("input", "output")]
            fname = prefix + name
            flat.vars[fname] = {
                "type": base,
                "prefixes": prefixes,
                "dims": list(dims) + list(comp.get("dims", [])),
                "attrs": attrs,
            }
            flat.order.append(fname)
        else:
            instantiate(lib, t, prefix + name + ".", mine, flat, False, list(dims) + list(comp.get("dims", [])))
    for q in _equations(lib, cid, "eqs"):
        flat.eqs.append([rename(q[0], prefix), rename(q[1], prefix)])
    for q in _equations(lib, cid, "ieqs"):
        flat.ieqs.append([rename(q[0], prefix), rename(q[1], prefix)])
    return flat


# --------------------------------------------------------------------------
# canonical strings
# --------------------------------------------------------------------------
def canon_abs(e):
    k = e[0]
    if k == "var":
        return e[1]
    if k == "idx":
        return "%s[%s]" % (e[1], ",".join(str(i) if not isinstance(i, list) else canon_abs(i) for i in e[2:]))
    if k == "int":
        return repr(int(e[1]))
    if k == "real":
        return repr(float(e[1]))
    if k == "bool":
        return repr(bool(e[1]))
    if k == "neg":
        return "(- %s)" % canon_abs(e[1])
    if k == "pos":
        return "(+ %s)" % canon_abs(e[1])
    if k in ("bin", "rel"):
        return "(%s %s %s)" % (e[1], canon_abs(e[2]), canon_abs(e[3]))
    if k == "der":
        return "(der %s)" % canon_abs(e[1])
    if k == "call":
        return "(%s %s)" % (e[1], " ".join(canon_abs(a) for a in e[2:]))
    if k in ("and", "or"):
        return "(%s %s %s)" % (k, canon_abs(e[1]), canon_abs(e[2]))
    if k == "not":
        return "(not %s)" % canon_abs(e[1])
    if k == "time":
        return "time"
    raise ValueError(e)


def canon_ast(n):
    from pymoca import ast

    if isinstance(n, ast.Primary):
        return repr(n.value)
    if isinstance(n, ast.Symbol):
        return n.name
    if isinstance(n, ast.ComponentRef):
        name = n.name
        idx = []
        c = n
        while True:
            for arr in c.indices:
                for i in arr:
                    if i is not None:
                        idx.append(canon_ast(i))
            if not c.child:
                break
            c = c.child[0]
            name += "." + c.name
        return name + ("[%s]" % ",".join(idx) if idx else "")
    if isinstance(n, ast.Expression):
        op = n.operator
        if isinstance(op, ast.ComponentRef):
            op = ".".join(op.to_tuple())
        return "(%s %s)" % (op, " ".join(canon_ast(o) for o in n.operands))
    if isinstance(n, ast.Equation):
        return "(= %s %s)" % (canon_ast(n.left), canon_ast(n.right))
    if isinstance(n, ast.Array):
        return "{%s}" % ",".join(canon_ast(v) for v in n.values)
    if isinstance(n, ast.IfExpression):
        return "(if %s)" % " ".join(canon_ast(v) for v in n.conditions + n.expressions)
    return "<%s>" % type(n).__name__


def canon_eq_abs(q):
    return "(= %s %s)" % (canon_abs(q[0]), canon_abs(q[1]))


def flat_dims(sym):
    out = []
    for arr in sym.dimensions:
        for d in arr:
            v = getattr(d, "value", None)
            if v is not None:
                out.append(v)
    return out
