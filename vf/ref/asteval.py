"""R-ast: a small interpreter over pymoca.ast expression nodes.  It is how the
checks observe the meaning of a parsed / flattened tree without a backend."""
import math


class AstEvalError(Exception):
    pass


def ref_name(cref):
    """Dotted name of a ComponentRef (indices ignored)."""
    parts = [cref.name]
    c = cref
    while c.child:
        c = c.child[0]
        parts.append(c.name)
    return ".".join(parts)


def ref_indices(cref, ev):
    out = []
    c = cref
    while True:
        for arr in c.indices:
            for i in arr:
                if i is not None:
                    out.append(ev(i))
        if not c.child:
            break
        c = c.child[0]
    return out


class AstEval:
    def __init__(self, env, mode="modelica", funcs=None, der=None):
        self.env = env
        self.mode = mode
        self.funcs = funcs or {}
        self.der = der or {}

    def truth(self, v):
        return v if isinstance(v, bool) else v != 0

    def b(self, v):
        return (1.0 if v else 0.0) if self.mode == "casadi" else bool(v)

    def ev(self, n):
        from pymoca import ast

        if isinstance(n, ast.Primary):
            return n.value
        if isinstance(n, (bool, int, float, str)):
            return n
        if isinstance(n, ast.ComponentRef):
            name = ref_name(n)
            if name not in self.env:
                raise AstEvalError("unknown variable %s" % name)
            v = self.env[name]
            for i in ref_indices(n, self.ev):
                v = v[int(i) - 1]
            return v
        if isinstance(n, ast.Symbol):
            return self.env[n.name]
        if isinstance(n, ast.Array):
            return [self.ev(v) for v in n.values]
        if isinstance(n, ast.IfExpression):
            for c, e in zip(n.conditions, n.expressions):
                if self.truth(self.ev(c)):
                    return self.ev(e)
            return self.ev(n.expressions[-1])
        if isinstance(n, ast.Expression):
            op = n.operator
            if isinstance(op, ast.ComponentRef):
                op = ref_name(op)
            args = n.operands
            if op == "der":
                a = args[0]
                if isinstance(a, ast.ComponentRef):
                    return self.der[ref_name(a)]
                raise AstEvalError("der of expression")
            vals = [self.ev(a) for a in args]
            return self.apply(op, vals)
        if isinstance(n, list):
            return [self.ev(v) for v in n]
        raise AstEvalError("cannot evaluate %r" % type(n).__name__)

    def apply(self, op, v):
        if op.startswith(".") and len(op) > 1:
            op = op[1:]
        n = len(v)
        if op == "+":
            return +v[0] if n == 1 else v[0] + v[1]
        if op == "-":
            return -v[0] if n == 1 else v[0] - v[1]
        if op == "*":
            return v[0] * v[1]
        if op == "/":
            return v[0] / v[1]
        if op == "^":
            r = v[0] ** v[1]
            if isinstance(r, complex):
                raise AstEvalError("complex power")
            return r
        if op in ("<", "<=", ">", ">=", "==", "<>"):
            a, b = v
            return self.b({"<": a < b, "<=": a <= b, ">": a > b, ">=": a >= b, "==": a == b, "<>": a != b}[op])
        if op == "not":
            return self.b(not self.truth(v[0]))
        if op == "and":
            return v[0] * v[1] if self.mode == "casadi" else (self.truth(v[0]) and self.truth(v[1]))
        if op == "or":
            return v[0] + v[1] if self.mode == "casadi" else (self.truth(v[0]) or self.truth(v[1]))
        f = {"sin": math.sin, "cos": math.cos, "tan": math.tan, "exp": math.exp, "log": math.log,
             "sqrt": math.sqrt, "abs": abs, "min": min, "max": max}.get(op)
        if f is not None:
            return f(*v)
        if op in self.funcs:
            return self.funcs[op](*v)
        raise AstEvalError("unknown operator/function %r" % op)


def evaluate(node, env, mode="modelica", funcs=None, der=None):
    return AstEval(env, mode, funcs, der).ev(node)
