"""Canonical forms and comparisons shared by differential checks.

tree_canon   - structural identity of ast trees (parse results, flat classes)
model_struct - names/order/types/shapes/outputs/delay states/alias relation of a CasADi model
compare_models - structural + numeric agreement of two models (fresh vs cached, option A vs B)
"""
import json
import math

import numpy as np

from vf.core import Discard, Violation

ATTRS = ("value", "min", "max", "start", "fixed", "nominal")
CATEGORIES = ("states", "der_states", "alg_states", "inputs", "parameters", "constants")


# --------------------------------------------------------------------------
# ast trees
# --------------------------------------------------------------------------
def tree_json(node):
    from pymoca import ast

    return ast.Node.to_json(node)


def tree_canon(node, drop=("id",)):
    """Order-preserving JSON text of a tree (parent/scope are skipped by
    Node.to_json).  `id` is a per-run counter that pymoca never sets; dropped."""
    j = tree_json(node)

    def strip(x):
        if isinstance(x, dict):
            return {k: strip(v) for k, v in x.items() if k not in drop}
        if isinstance(x, list):
            return [strip(v) for v in x]
        if isinstance(x, float) and math.isnan(x):
            return "nan"
        return x

    return json.dumps(strip(j), default=str)


# --------------------------------------------------------------------------
# casadi models
# --------------------------------------------------------------------------
def _num(x):
    """Attribute value -> nested list of floats/bools (no MX)."""
    import casadi as ca

    if isinstance(x, ca.DM):
        return np.array(x, dtype=float)
    if isinstance(x, (list, tuple, np.ndarray)):
        return np.array(x, dtype=float)
    return np.array(float(x))


def attr_value(attr, env):
    """Numeric value of a variable attribute.  `env` maps symbol name -> numpy
    value for parameters/constants the attribute may depend on."""
    import casadi as ca

    if isinstance(attr, ca.MX):
        syms = ca.symvar(attr)
        vals = []
        for s in syms:
            if s.name() not in env:
                raise Discard("attribute depends on a symbol that is neither parameter nor constant")
            vals.append(ca.DM(np.array(env[s.name()], dtype=float).reshape(s.shape, order="F")))
        f = ca.Function("attr", syms, [attr])
        out = f.call(vals)[0]
        return np.array(out, dtype=float)
    return _num(attr)


def same_num(a, b, rtol=1e-9, atol=1e-12):
    a = np.array(a, dtype=float)
    b = np.array(b, dtype=float)
    if a.size == 1 and b.size != 1:
        a = np.full(b.shape, float(a.reshape(-1)[0]))
    if b.size == 1 and a.size != 1:
        b = np.full(a.shape, float(b.reshape(-1)[0]))
    if a.size != b.size:
        return False
    a = a.reshape(-1)
    b = b.reshape(-1)
    for x, y in zip(a, b):
        if math.isnan(x) or math.isnan(y):
            if not (math.isnan(x) and math.isnan(y)):
                return False
        elif math.isinf(x) or math.isinf(y):
            if x != y:
                return False
        elif abs(x - y) > atol + rtol * max(abs(x), abs(y)):
            return False
    return True


def var_struct(v):
    return {
        "name": v.symbol.name(),
        "shape": [int(v.symbol.size1()), int(v.symbol.size2())],
        "python_type": v.python_type.__name__,
    }


def model_struct(m):
    out = {}
    for cat in CATEGORIES:
        out[cat] = [var_struct(v) for v in getattr(m, cat)]
    out["aliases"] = {
        cat: {v.symbol.name(): sorted(v.aliases) for v in getattr(m, cat) if v.aliases}
        for cat in CATEGORIES
    }
    out["outputs"] = list(m.outputs)
    out["delay_states"] = list(m.delay_states)
    out["string_parameters"] = [
        (v.name, v.value, v.start, bool(v.fixed)) for v in m.string_parameters
    ]
    out["string_constants"] = [(v.name, v.value, v.start, bool(v.fixed)) for v in m.string_constants]
    ar = m.alias_relation
    rel = []
    for c in sorted(ar.canonical_variables):
        rel.append([c, sorted(a for a in ar.aliases(c) if a != c)])
    out["alias_relation"] = rel
    return out


def param_env(m, rs):
    """Random values for parameters (and the values of constants) by name."""
    env = {}
    for p in m.parameters:
        env[p.symbol.name()] = rs.uniform(0.5, 2.0, size=(p.symbol.size1(), p.symbol.size2()))
    pending = list(m.constants)
    for _ in range(len(pending) + 1):
        rest = []
        for c in pending:
            try:
                env[c.symbol.name()] = attr_value(c.value, env)
            except Discard:
                rest.append(c)
        if not rest or len(rest) == len(pending):
            break
        pending = rest
    return env


def model_attrs(m, env, cats=("states", "alg_states", "inputs", "parameters", "constants")):
    out = {}
    for cat in cats:
        for v in getattr(m, cat):
            for a in ATTRS:
                out[(cat, v.symbol.name(), a)] = attr_value(getattr(v, a), env)
    return out


FUNCS = ("dae_residual_function", "initial_residual_function", "variable_metadata_function", "delay_arguments_function")


def func_io(f):
    return [tuple(f.size_in(i)) for i in range(f.n_in())], [tuple(f.size_out(i)) for i in range(f.n_out())]


def eval_func(f, rs, lo=0.5, hi=2.0, ins=None):
    import casadi as ca

    if ins is None:
        ins = [ca.DM(rs.uniform(lo, hi, size=f.size_in(i))) for i in range(f.n_in())]
    outs = f.call(ins)
    return ins, [np.array(ca.DM(o), dtype=float) for o in outs]


def compare_functions(ma, mb, seed, what, funcs=FUNCS, npoints=3, tol=1e-8):
    rs = np.random.RandomState(seed % (2**31))
    for fn in funcs:
        fa, fb = getattr(ma, fn), getattr(mb, fn)
        if func_io(fa) != func_io(fb):
            raise Violation("func_signature:%s" % fn, "%s: %s vs %s" % (what, func_io(fa), func_io(fb)))
        for _ in range(npoints):
            ins, oa = eval_func(fa, rs)
            _, ob = eval_func(fb, rs, ins=ins)
            for k, (x, y) in enumerate(zip(oa, ob)):
                if not same_num(x, y, rtol=tol, atol=tol):
                    raise Violation(
                        "func_value:%s" % fn,
                        "%s: output %d differs: %s vs %s" % (what, k, x.reshape(-1)[:8], y.reshape(-1)[:8]),
                    )


def compare_models(ma, mb, seed, what="models", funcs=FUNCS, check_attrs=True):
    """ma is the reference.  Raises Violation on the first difference."""
    sa, sb = model_struct(ma), model_struct(mb)
    for k in sa:
        if sa[k] != sb[k]:
            raise Violation("model_struct:%s" % k, "%s: %s differs: %r vs %r" % (what, k, sa[k], sb[k]))
    if check_attrs:
        rs = np.random.RandomState((seed + 17) % (2**31))
        for _ in range(2):
            env = param_env(ma, rs)
            aa, ab = model_attrs(ma, env), model_attrs(mb, env)
            for key in aa:
                if not same_num(aa[key], ab[key]):
                    raise Violation(
                        "model_attr:%s" % key[2],
                        "%s: %s.%s of %s differs: %s vs %s" % (what, key[0], key[2], key[1], aa[key], ab[key]),
                    )
    compare_functions(ma, mb, seed, what, funcs)
