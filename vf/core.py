"""Shared pieces of every check: the per-shard context, violation records,
signatures, and the Hypothesis drivers (collect-then-report: an oracle failure
is recorded under its signature and the search goes on, so one shallow defect
does not hide what lies behind it)."""
import hashlib
import json
import math
import os
import time
import traceback
from collections import Counter

import hypothesis
from hypothesis import HealthCheck, Phase, given, settings


class Violation(Exception):
    """The oracle disagrees with the code under test."""

    def __init__(self, kind, msg="", labels=()):
        super().__init__("%s: %s" % (kind, msg))
        self.kind = kind
        self.msg = msg
        self.labels = tuple(labels)


class Discard(Exception):
    """Case is outside the property's domain (counted, with the reason)."""

    def __init__(self, reason):
        super().__init__(reason)
        self.reason = reason


def canon_json(obj):
    return json.dumps(obj, sort_keys=True, default=str, separators=(",", ":"))


def case_hash(obj):
    return hashlib.blake2b(canon_json(obj).encode(), digest_size=8).hexdigest()


def pymoca_frame(exc):
    """Innermost frame inside the code under test: function name only (line
    numbers would make signatures unstable under unrelated edits)."""
    tb = traceback.extract_tb(exc.__traceback__)
    for fr in reversed(tb):
        fn = fr.filename.replace("\\", "/")
        if "/pymoca/" in fn or "/tools/compiler" in fn:
            return "%s:%s" % (os.path.basename(fn), fr.name)
    return "?"


def exc_kind(exc, where=""):
    return "exception%s:%s@%s" % (
        ("[" + where + "]") if where else "",
        type(exc).__name__,
        pymoca_frame(exc),
    )


def as_violation(exc, where=""):
    """Exception -> Violation if it was raised inside the code under test;
    exceptions with no pymoca frame are harness errors and are re-raised."""
    if isinstance(exc, (Violation, Discard)):
        return exc
    if pymoca_frame(exc) == "?":
        raise exc
    return Violation(exc_kind(exc, where), "%s: %s" % (type(exc).__name__, str(exc)[:300]))


def guarded(fn, *args, where="", reject=(), **kwargs):
    """Call into pymoca.  Exceptions become Violations (properties over 'the
    supported subset': raising on a generated model is a failure), except
    NotImplementedError raised by pymoca itself, which documents 'outside the
    subset' and is a counted discard, and classes listed in `reject`."""
    try:
        return fn(*args, **kwargs)
    except NotImplementedError as e:
        raise Discard("NotImplementedError:" + pymoca_frame(e))
    except (Violation, Discard):
        raise
    except reject:
        raise
    except RecursionError as e:
        raise Violation(exc_kind(e, where), "recursion")
    except Exception as e:  # noqa: BLE001 - this is the classification point
        raise Violation(exc_kind(e, where), "%s: %s" % (type(e).__name__, str(e)[:300]))


class Ctx:
    def __init__(self, prop, tier, seed, shard, nshards, known_features, scratch, params=None):
        self.prop = prop
        self.tier = tier
        self.seed = seed
        self.shard = shard
        self.nshards = nshards
        self.known_features = set(known_features)
        self.scratch = scratch
        self.params = params or {}
        self.evaluations = 0
        self.nontrivial = set()
        self.labels = Counter()
        self.discards = Counter()
        self.excluded = Counter()
        self.samples = []
        self.failures = {}  # sig -> dict(case, msg, size, count)
        self.extra = Counter()
        self.t0 = time.time()
        self.soft_deadline = None
        self.out_of_budget = 0

    # ---- budgets -----------------------------------------------------
    @property
    def hseed(self):
        return self.seed * 1000 + self.shard

    def share(self, quick, thorough):
        """Per-shard share of a total case count."""
        total = quick if self.tier == "quick" else thorough
        scale = float(os.environ.get("VERIF_SCALE", "1"))
        total = max(1, int(total * scale))
        base = total // self.nshards
        return base + (1 if self.shard < total % self.nshards else 0)

    def pick(self, quick, thorough):
        return quick if self.tier == "quick" else thorough

    def over_budget(self):
        if self.soft_deadline is not None and time.time() > self.soft_deadline:
            self.out_of_budget += 1
            return True
        return False

    # ---- recording ---------------------------------------------------
    def record(self, case, nontrivial, labels=(), sample=None):
        self.evaluations += 1
        for lb in labels:
            self.labels[lb] += 1
        if nontrivial:
            h = case_hash(case)
            if h not in self.nontrivial:
                self.nontrivial.add(h)
                if len(self.samples) < 3 and (sample is not None or case is not None):
                    self.samples.append(sample if sample is not None else case)

    def discard(self, reason):
        self.discards[reason] += 1

    def exclude(self, feature):
        """A draw was steered away from a known-finding feature."""
        self.excluded[feature] += 1

    def known(self, feature):
        return feature in self.known_features

    def fail(self, violation, case, labels=()):
        sig = violation.kind
        size = len(canon_json(case))
        cur = self.failures.get(sig)
        if cur is None:
            self.failures[sig] = {
                "sig": sig,
                "case": case,
                "msg": violation.msg,
                "size": size,
                "count": 1,
                "labels": sorted(set(labels) | set(violation.labels)),
            }
        else:
            cur["count"] += 1
            if size < cur["size"]:
                cur.update(case=case, msg=violation.msg, size=size)

    def result(self):
        return {
            "shard": self.shard,
            "evaluations": self.evaluations,
            "nontrivial": sorted(self.nontrivial),
            "labels": dict(self.labels),
            "discards": dict(self.discards),
            "excluded": dict(self.excluded),
            "samples": self.samples,
            "failures": list(self.failures.values()),
            "extra": dict(self.extra),
            "out_of_budget": self.out_of_budget,
            "wall_s": time.time() - self.t0,
        }


def hsettings(n, stateful_steps=None, shrink=False):
    kw = dict(
        max_examples=max(1, n),
        database=None,
        deadline=None,
        derandomize=False,
        report_multiple_bugs=False,
        suppress_health_check=[HealthCheck.too_slow, HealthCheck.data_too_large],
        phases=[Phase.generate, Phase.shrink] if shrink else [Phase.generate],
    )
    if stateful_steps is not None:
        kw["stateful_step_count"] = stateful_steps
    return settings(**kw)


def drive(ctx, strategy, check_case, n):
    """Run `check_case(ctx, case)` over `n` cases drawn from `strategy`.

    check_case returns dict(nontrivial=bool, labels=[...], sample=...) or
    raises Violation (recorded under its signature; search continues) or
    Discard (counted)."""
    if n <= 0:
        return

    @hypothesis.seed(ctx.hseed)
    @hsettings(n)
    @given(strategy)
    def run(case):
        if ctx.over_budget():
            return
        run_one(ctx, check_case, case)

    run()


def run_one(ctx, check_case, case):
    try:
        info = check_case(ctx, case) or {}
    except Violation as v:
        ctx.evaluations += 1
        ctx.fail(v, case)
        return False
    except Discard as d:
        ctx.discard(d.reason)
        return True
    ctx.record(
        case,
        bool(info.get("nontrivial", False)),
        info.get("labels", ()),
        info.get("sample"),
    )
    return True


def isclose(a, b, rtol=1e-9, atol=1e-9):
    if isinstance(a, bool) or isinstance(b, bool):
        return bool(a) == bool(b)
    try:
        a = float(a)
        b = float(b)
    except (TypeError, ValueError, OverflowError):  # (an exact integer beyond the float range)
        return a == b
    if math.isnan(a) or math.isnan(b):
        return math.isnan(a) and math.isnan(b)
    if math.isinf(a) or math.isinf(b):
        return a == b
    return abs(a - b) <= atol + rtol * max(abs(a), abs(b))
