#!/venv/bin/python
"""Create mutant diffs from textual replacements.
usage: tools/mkmutants.py <ID> <spec.py>   where spec.py defines MUTANTS = {name: [(relpath, old, new), ...]}
Diffs are made against /repo's working tree (or $BASE) in a scratch copy under /tmp."""
import os, subprocess, sys, tempfile, shutil, runpy
pid, spec = sys.argv[1], sys.argv[2]
base = os.environ.get("BASE", "/repo")
muts = runpy.run_path(spec)["MUTANTS"]
out = os.path.join(os.path.dirname(os.path.abspath(__file__)), "..", "mutants", pid)
os.makedirs(out, exist_ok=True)
for name, edits in muts.items():
    with tempfile.TemporaryDirectory(prefix="vf_mk_") as d:
        a, b = os.path.join(d, "a"), os.path.join(d, "b")
        for root in (a, b):
            for rel, _, _ in edits:
                os.makedirs(os.path.dirname(os.path.join(root, rel)), exist_ok=True)
                shutil.copy(os.path.join(base, rel), os.path.join(root, rel))
        for rel, old, new in edits:
            p = os.path.join(b, rel)
            s = open(p).read()
            if s.count(old) < 1:
                print("!! %s: pattern not found in %s" % (name, rel)); break
            open(p, "w").write(s.replace(old, new, 1))
        else:
            r = subprocess.run(["diff", "-ru", "a", "b"], cwd=d, capture_output=True, text=True)
            import re
            text = re.sub(r"^(--- |\+\+\+ )(\S+)\t.*$", r"\1\2", r.stdout, flags=re.M)  # no timestamps: stable files
            open(os.path.join(out, name + ".diff"), "w").write(text)
            print("wrote", name, len(r.stdout.splitlines()), "lines")
