#!/venv/bin/python
"""Regenerate MANIFEST.json from the property modules that exist (vf/props/cNN.py).
Each module carries MANIFEST = dict(text=..., note=..., technique=..., design_ref=...)."""
import importlib
import json
import sys
from pathlib import Path

VERIF = Path(__file__).resolve().parent.parent
sys.path.insert(0, str(VERIF))

NOT_BUILT = {}  # id -> reason, filled for properties without a module

props = [json.loads(l) for l in (VERIF / "properties.jsonl").read_text().splitlines() if l.strip()]
checks = []
not_applicable = []
engines = []
for p in props:
    pid = p["id"]
    modfile = VERIF / "vf" / "props" / (pid.lower() + ".py")
    ready = (VERIF / "vf" / "props" / "READY").read_text().split()
    if not modfile.exists() or pid not in ready:
        not_applicable.append(
            {"property_id": pid, "reason": NOT_BUILT.get(pid, "check not built yet (see DESIGN.md section 3 for the planned generator and oracle)")}
        )
        continue
    mod = importlib.import_module("vf.props." + pid.lower())
    m = mod.MANIFEST
    entry = {
        "property_id": pid,
        "quick_cmd": "./check %s quick" % pid,
        "thorough_cmd": "./check %s thorough" % pid,
        "evidence_file": "evidence/%s.json" % pid,
        "replay_cmd_template": "./check --replay {path}",
        "engine": "vf",
        "level_claimed": {
            "category": mod.LEVEL,
            "text": m["text"],
            "design_ref": m.get("design_ref", "DESIGN.md section 3, " + pid),
        },
        "level_note": m["note"],
        "technique": m["technique"],
    }
    checks.append(entry)

manifest = {
    "version": 1,
    "setup_cmd": "/venv/bin/python -c 'import hypothesis' 2>/dev/null || /venv/bin/pip install --no-index --find-links /opt/veriftools/wheels hypothesis",
    "hooks": {
        "guard": "PYMOCA_VERIF",
        "enable": "no hooks are needed: checks import pymoca from /repo's working tree in a fresh interpreter and patch module attributes from the harness (see DESIGN.md 1.4)",
        "baseline_off_cmd": "cd /repo && /venv/bin/python -m pytest -ra -q -p no:cacheprovider --timeout=900 --continue-on-collection-errors",
        "source_commits": [],
        "add_only": True,
    },
    "engines": [
        {
            "name": "vf",
            "path": "vf/",
            "serves_properties": [c["property_id"] for c in checks],
            "kind_free_text": "Hypothesis-driven property-based testing (strategies, rule-based state machines), bounded exhaustive enumeration, harness-owned schedules and fault injection; explicit reference models as oracles",
        }
    ],
    "checks": checks,
    "not_applicable": not_applicable,
    "notes": "Single entry point ./check <ID> <quick|thorough>; VERIF_SEED selects the Hypothesis seed; KNOWN_FINDINGS.txt lists recorded and fixed defects; DESIGN.md explains every check.",
}
(VERIF / "MANIFEST.json").write_text(json.dumps(manifest, indent=1) + "\n")
print("checks:", [c["property_id"] for c in checks])
print("not_applicable:", [c["property_id"] for c in not_applicable])
