#!/bin/bash
# Run checks against a patched scratch copy of /repo (never touches /repo).
# usage: tools/mutant.sh <patch.diff> <ID> [tier] [seed...]
# prints one line per seed: "<ID> seed=<n> rc=<rc>"; removes the copy afterwards.
set -u
patch_file=$(readlink -f "$1"); shift
id=$1; shift
tier=${1:-quick}; [ $# -gt 0 ] && shift
seeds=${*:-1}
work=$(mktemp -d /tmp/vf_mut_XXXXXX)
trap 'rm -rf "$work"' EXIT
rsync -a --exclude .git --exclude '*.pymoca_cache' --exclude '*.so' /repo/ "$work/repo/"
( cd "$work/repo" && patch -p1 -s --no-backup-if-mismatch < "$patch_file" ) || { echo "PATCH-FAILED $patch_file"; exit 3; }
cd "$(dirname "$0")/.."
for s in $seeds; do
  out=$(VERIF_REPO="$work/repo" VERIF_EVIDENCE_DIR="$work/evidence" VERIF_SEED=$s ./check "$id" "$tier" 2>&1); rc=$?
  echo "$id $(basename "$patch_file") seed=$s rc=$rc :: $(echo "$out" | grep -m1 -E 'VIOLATION|HARNESS' || echo "$out" | tail -1)"
done
