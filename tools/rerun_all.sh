#!/bin/bash
# Regression over everything stored: every seeded change and every mutant must still be detected by the
# quick tier at seed 1 (rc=1).  usage: tools/rerun_all.sh [seeded|mutants|all]   (hours; prints only misses + a summary)
cd "$(dirname "$0")/.."
what=${1:-all}
n=0; missed=0
run() { # diff id
  out=$(tools/mutant.sh "$1" "$2" quick 1 2>&1 | grep -v CasADi | tail -1)
  n=$((n+1))
  case "$out" in *"rc=1 :: VIOLATION"*) ;; *) missed=$((missed+1)); echo "MISSED $1 :: $out" | cut -c1-250;; esac
}
if [ "$what" != mutants ]; then
  for d in seeded/*/; do id=$(basename "$d" | cut -d_ -f1); run "$d/patch.diff" "$id"; done
fi
if [ "$what" != seeded ]; then
  for m in mutants/C*/*.diff; do id=$(basename "$(dirname "$m")"); run "$m" "$id"; done
fi
echo "rerun_all: $n diffs, $missed missed"
