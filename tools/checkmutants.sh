#!/bin/bash
# Every stored mutant / seeded diff must still apply to /repo's working tree (repo fixes can make them stale).
cd /repo || exit 2
rc=0
for d in /verif/mutants/C*/*.diff /verif/seeded/*/patch.diff; do
  patch -p1 --dry-run -s < "$d" >/dev/null 2>&1 || { echo "NOAPPLY $d"; rc=1; }
done
exit $rc
