#!/bin/bash
# For every seeded change: run the quick tier against it (seed 1), and store the case that exposed it as a plain
# corpus input corpus/<ID>/seed_<name>.json (it must pass on the unchanged /repo).  From then on the replay tier
# detects that change whatever the generators draw.  usage: tools/pin_seeds.sh [seeded dir names...]
cd "$(dirname "$0")/.."
dirs=${*:-$(ls seeded)}
for d in $dirs; do
  id=$(echo "$d" | cut -d_ -f1)
  dest=corpus/$id/seed_$d.json
  [ -f "$dest" ] && mv "$dest" "$dest.off"   # find it with the generators, not with its own pin
  out=$(tools/mutant.sh "seeded/$d/patch.diff" "$id" quick 1 2>&1 | grep -v CasADi | tail -1)
  [ -f "$dest.off" ] && mv "$dest.off" "$dest"
  rp=$(echo "$out" | sed -n 's/.*VIOLATION property=[A-Z0-9]* replay=\(.*\)$/\1/p')
  if [ -z "$rp" ] || [ ! -f "$rp" ]; then echo "MISSED $d :: $out" | cut -c1-220; continue; fi
  if ./check --replay "$rp" 2>&1 | grep -q "^replay passes"; then
    mkdir -p "corpus/$id"; cp "$rp" "$dest"; echo "pinned $d <- $rp"
  else
    echo "NOT-PINNED $d ($rp does not pass on the unchanged tree)"
  fi
done
