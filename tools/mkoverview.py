#!/venv/bin/python
"""Print the as-built overview table (markdown) from evidence/, mutants/, seeded/, KNOWN_FINDINGS.txt."""
import json, glob, os, re
V = os.path.dirname(os.path.dirname(os.path.abspath(__file__)))
man = json.load(open(os.path.join(V, "MANIFEST.json")))
kf = open(os.path.join(V, "KNOWN_FINDINGS.txt")).read()
print("| id | technique | quick: evaluations / distinct non-trivial / wall s | mutants | seeded | fixed / known |")
print("|---|---|---|---|---|---|")
for c in man["checks"]:
    pid = c["property_id"]
    ev = json.load(open(os.path.join(V, "evidence", pid + ".json")))
    cov = ev["coverage"]
    nm = len(glob.glob(os.path.join(V, "mutants", pid, "*.diff")))
    ns = len(glob.glob(os.path.join(V, "seeded", pid + "*", "patch.diff")))
    nf = len(re.findall(r"^fixed: property=%s " % pid, kf, re.M))
    nk = len(re.findall(r"^known: property=%s " % pid, kf, re.M))
    print("| %s | %s | %d / %d / %.0f (%s) | %d | %d | %d / %d |" % (pid, c.get("technique", "")[:90], cov["evaluations"], cov["distinct_nontrivial"], ev["wall_s"], ev["tier"], nm, ns, nf, nk))
