#!/venv/bin/python
"""Run the pinned suite on /repo (or $1) and compare with BASELINE.json's stable_pass set."""
import json, subprocess, sys, tempfile, os, xml.etree.ElementTree as ET
repo = sys.argv[1] if len(sys.argv) > 1 else "/repo"
src = os.environ.get("BASELINE_SRC")  # optional: PYTHONPATH override for scratch copies
base = json.load(open("/root/.vp/BASELINE.json"))
with tempfile.TemporaryDirectory() as d:
    j = os.path.join(d, "j.xml")
    env = dict(os.environ, XDG_CACHE_HOME=os.path.join(d, "xdg"))
    if src:
        env["PYTHONPATH"] = src
    subprocess.run(["/venv/bin/python", "-m", "pytest", "-q", "-p", "no:cacheprovider", "--timeout=900",
                    "--continue-on-collection-errors", "--junitxml=" + j], cwd=repo, env=env,
                   stdout=subprocess.DEVNULL, stderr=subprocess.DEVNULL)
    passed = set()
    for tc in ET.parse(j).getroot().iter("testcase"):
        if not any(c.tag in ("failure", "error", "skipped") for c in tc):
            passed.add("%s::%s" % (tc.get("classname"), tc.get("name")))
missing = sorted(set(base["stable_pass"]) - passed)
print("passed=%d stable_missing=%d" % (len(passed), len(missing)))
for m in missing:
    print("  MISSING", m)
sys.exit(1 if missing else 0)
